#!/bin/bash
# Build the simulator binary from /verif/sim against the current working tree of the repo.
# Offline: workspace mode against the module cache only.
set -e
cd "$(dirname "$0")/.."
REPO="${VERIF_REPO:-/repo}"
OUT="${VERIF_BIN:-/verif/bin/orbsim}"
SIM="${VERIF_SIM:-/verif/sim}"
export GOPROXY=off GOFLAGS= GOTOOLCHAIN=auto
unset GOSUMDB GONOSUMDB GONOSUMCHECK GOWORK
if [ "$REPO" = "/repo" ]; then
  export GOWORK=/verif/go.work
else
  mkdir -p /verif/.build
  W=/verif/.build/work-$(echo "$REPO" | md5sum | cut -c1-8)
  mkdir -p "$W"
  printf 'go 1.24.0\n\nuse (\n\t'"$SIM"'\n\t%s\n\t%s/e2e\n\t%s/simapp\n\t%s/tool\n)\n' "$REPO" "$REPO" "$REPO" "$REPO" > "$W/go.work"
  cp /verif/go.work.sum "$W/go.work.sum"
  export GOWORK="$W/go.work"
fi
go build -o "$OUT" "$SIM"
