package main

// World construction: a real simapp.SimApp over an in-memory DB, with a fixed,
// seed-independent environment (accounts, FTF, CCTP, Hyperlane, IBC channel pairs
// over the 09-localhost client). Nothing here draws from the PRNG: the seed decides
// schedules, workloads and faults only.

import (
	"math"
	"encoding/json"
	"fmt"
	"math/big"
	"sort"
	"time"

	"cosmossdk.io/log"
	sdkmath "cosmossdk.io/math"
	hyputil "github.com/bcp-innovations/hyperlane-cosmos/util"
	ismtypes "github.com/bcp-innovations/hyperlane-cosmos/x/core/01_interchain_security/types"
	pdtypes "github.com/bcp-innovations/hyperlane-cosmos/x/core/02_post_dispatch/types"
	hypcoretypes "github.com/bcp-innovations/hyperlane-cosmos/x/core/types"
	warptypes "github.com/bcp-innovations/hyperlane-cosmos/x/warp/types"
	cctptypes "github.com/circlefin/noble-cctp/x/cctp/types"
	ftftypes "github.com/circlefin/noble-fiattokenfactory/x/fiattokenfactory/types"
	abci "github.com/cometbft/cometbft/abci/types"
	"github.com/cometbft/cometbft/crypto/ed25519"
	cmttypes "github.com/cometbft/cometbft/types"
	dbm "github.com/cosmos/cosmos-db"
	"github.com/cosmos/cosmos-sdk/baseapp"
	"github.com/cosmos/cosmos-sdk/crypto/hd"
	"github.com/cosmos/cosmos-sdk/crypto/keys/secp256k1"
	simtestutil "github.com/cosmos/cosmos-sdk/testutil/sims"
	sdk "github.com/cosmos/cosmos-sdk/types"
	authtx "github.com/cosmos/cosmos-sdk/x/auth/tx"
	authtypes "github.com/cosmos/cosmos-sdk/x/auth/types"
	banktypes "github.com/cosmos/cosmos-sdk/x/bank/types"
	gogoproto "github.com/cosmos/gogoproto/proto"
	transfertypes "github.com/cosmos/ibc-go/v8/modules/apps/transfer/types"
	clienttypes "github.com/cosmos/ibc-go/v8/modules/core/02-client/types"
	channeltypes "github.com/cosmos/ibc-go/v8/modules/core/04-channel/types"
	ibcexported "github.com/cosmos/ibc-go/v8/modules/core/exported"
	localhost "github.com/cosmos/ibc-go/v8/modules/light-clients/09-localhost"

	"github.com/noble-assets/orbiter/v2/simapp"
	orbitertypes "github.com/noble-assets/orbiter/v2/types"
	dispatchertypes "github.com/noble-assets/orbiter/v2/types/component/dispatcher"
	"github.com/noble-assets/orbiter/v2/types/core"
)

const (
	ChainID      = "noble-sim"
	DenomUSDC    = "uusdc"
	DenomHuge    = "uhuge"
	DenomStake   = "stake"
	DenomOther   = "uother" // a native denom with no bridge at all (internal route only)
	NumPairs     = 3
	NumRemote    = 3 // remote users per pair
	NumNoble     = 3
	NumFeeRcpt   = 5
	NumRecipient = 3
	NumRelayers  = 6
	HypLocalDom  = 1313817164
	authMnemonic = "occur subway woman achieve deputy rapid museum point usual appear oil blue rate title claw debate flag gallery level object baby winner erase carbon"
)

var (
	GenesisTime  = time.Unix(1_700_000_000, 0).UTC()
	CCTPDomains  = []uint32{0, 1, 2, 3, 5}
	HypDomains   = []uint32{1, 10, 42161}
	BurnLimit    = sdkmath.NewInt(1_000_000_000_000)
	HugeSupply   = sdkmath.NewIntFromBigInt(new(big.Int).Sub(new(big.Int).Lsh(big.NewInt(1), 256), big.NewInt(1)))
	proofHeight  = clienttypes.NewHeight(0, 1)
	localConn    = []string{ibcexported.LocalhostConnectionID}
	sentinel     = localhost.SentinelProof
	bech32Inited = false
)

func initBech32() {
	if bech32Inited {
		return
	}
	cfg := sdk.GetConfig()
	cfg.SetBech32PrefixForAccount("noble", "noblepub")
	cfg.SetBech32PrefixForValidator("noblevaloper", "noblevaloperpub")
	cfg.SetBech32PrefixForConsensusNode("noblevalcons", "noblevalconspub")
	bech32Inited = true
}

// Account is a keyed actor account.
type Account struct {
	Name string
	Key  *secp256k1.PrivKey
	Addr sdk.AccAddress
}

func newAccount(name string) *Account {
	k := secp256k1.GenPrivKeyFromSecret([]byte("orbsim/" + name))
	return &Account{Name: name, Key: k, Addr: sdk.AccAddress(k.PubKey().Address())}
}

// Env is the static description of the world: who exists, which channels, which
// Hyperlane objects. Identical in every run and every process.
type Env struct {
	Accts     map[string]*Account
	AcctNames []string // sorted
	Authority *Account
	Circle    *Account // FTF + CCTP admin roles
	HypOwner  *Account
	Relayers  []*Account
	Noble     []*Account   // Noble-side users
	Remote    [][]*Account // [pair][i] remote users (hold vouchers on B ends)
	FeeRcpt   []*Account
	Rcpt      []*Account
	Depositor *Account
	Impostor  *Account
	Pool      *Account // liquidity of the mode-B test swap action

	Orbiter sdk.AccAddress
	Dust    sdk.AccAddress
	CCTPMod sdk.AccAddress
	WarpMod sdk.AccAddress

	// Hyperlane objects (filled by setup)
	HypISM     hyputil.HexAddress
	HypHook    hyputil.HexAddress
	HypMailbox hyputil.HexAddress
	HypTokens  map[string]hyputil.HexAddress // origin denom -> token id
	// a second mailbox whose default hook is an interchain gas paymaster charging in `stake`, with a collateral token for uother
	HypIGP      hyputil.HexAddress
	HypMailbox2 hyputil.HexAddress
	HypIGPToken hyputil.HexAddress

	// name lookup for traces
	addrName map[string]string
}

// Pair describes channel pair i: A end is Noble's channel towards remote chain i,
// B end hosts the remote chain's users.
func chanA(i int) string { return fmt.Sprintf("channel-%d", 2*i) }
func chanB(i int) string { return fmt.Sprintf("channel-%d", 2*i+1) }

func escrowA(i int) sdk.AccAddress { return transfertypes.GetEscrowAddress("transfer", chanA(i)) }
func escrowB(i int) sdk.AccAddress { return transfertypes.GetEscrowAddress("transfer", chanB(i)) }

// voucherOnB is the bank denom under which a Noble-native denom sits on the B end of pair i.
func voucherOnB(i int, native string) string {
	return transfertypes.ParseDenomTrace("transfer/" + chanB(i) + "/" + native).IBCDenom()
}

func newEnv() *Env {
	initBech32()
	e := &Env{Accts: map[string]*Account{}, HypTokens: map[string]hyputil.HexAddress{}, addrName: map[string]string{}}
	add := func(a *Account) *Account { e.Accts[a.Name] = a; return a }
	bz, err := hd.Secp256k1.Derive()(authMnemonic, "", "m/44'/118'/0'/0/0")
	if err != nil {
		panic(err)
	}
	ak := &secp256k1.PrivKey{Key: bz}
	e.Authority = add(&Account{Name: "authority", Key: ak, Addr: sdk.AccAddress(ak.PubKey().Address())})
	e.Circle = add(newAccount("circle"))
	e.HypOwner = add(newAccount("hypowner"))
	e.Depositor = add(newAccount("depositor"))
	e.Impostor = add(newAccount("impostor"))
	e.Pool = add(newAccount("pool"))
	for i := 0; i < NumRelayers; i++ {
		e.Relayers = append(e.Relayers, add(newAccount(fmt.Sprintf("relayer%d", i))))
	}
	for i := 0; i < NumNoble; i++ {
		e.Noble = append(e.Noble, add(newAccount(fmt.Sprintf("noble%d", i))))
	}
	for p := 0; p < NumPairs; p++ {
		var us []*Account
		for i := 0; i < NumRemote; i++ {
			us = append(us, add(newAccount(fmt.Sprintf("remote%d_%d", p, i))))
		}
		e.Remote = append(e.Remote, us)
	}
	for i := 0; i < NumFeeRcpt; i++ {
		e.FeeRcpt = append(e.FeeRcpt, add(newAccount(fmt.Sprintf("fee%d", i))))
	}
	for i := 0; i < NumRecipient; i++ {
		e.Rcpt = append(e.Rcpt, add(newAccount(fmt.Sprintf("rcpt%d", i))))
	}
	e.Orbiter = core.ModuleAddress
	e.Dust = authtypes.NewModuleAddress(core.DustCollectorName)
	e.CCTPMod = authtypes.NewModuleAddress("cctp")
	e.WarpMod = authtypes.NewModuleAddress("warp")
	for n := range e.Accts {
		e.AcctNames = append(e.AcctNames, n)
	}
	sort.Strings(e.AcctNames)
	for _, n := range e.AcctNames {
		e.addrName[e.Accts[n].Addr.String()] = n
	}
	e.addrName[e.Orbiter.String()] = "ORBITER"
	e.addrName[e.Dust.String()] = "DUST"
	e.addrName[e.CCTPMod.String()] = "mod:cctp"
	e.addrName[e.WarpMod.String()] = "mod:warp"
	e.addrName[authtypes.NewModuleAddress("transfer").String()] = "mod:transfer"
	e.addrName[authtypes.NewModuleAddress("hyperlane").String()] = "mod:hyperlane"
	e.addrName[authtypes.NewModuleAddress("fiat-tokenfactory").String()] = "mod:ftf"
	e.addrName[authtypes.NewModuleAddress("bonded_tokens_pool").String()] = "mod:bonded"
	for p := 0; p < NumPairs; p++ {
		e.addrName[escrowA(p).String()] = fmt.Sprintf("escrowA%d", p)
		e.addrName[escrowB(p).String()] = fmt.Sprintf("escrowB%d", p)
	}
	return e
}

// Name gives a stable, readable name for an address (for traces and fingerprints).
func (e *Env) Name(addr string) string {
	if n, ok := e.addrName[addr]; ok {
		return n
	}
	return addr
}

func pad32(b byte) []byte {
	x := make([]byte, 32)
	x[31] = b
	return x
}

// genesis builds the application genesis document.
func (e *Env) genesis(app *simapp.SimApp, valSet *cmttypes.ValidatorSet, orbiterGen *orbitertypes.GenesisState) []byte {
	cdc := app.OrbiterKeeper.Codec()
	g := app.DefaultGenesis()
	var accs []authtypes.GenesisAccount
	var bals []banktypes.Balance
	big := func(s string) sdkmath.Int { i, _ := sdkmath.NewIntFromString(s); return i }
	for _, n := range e.AcctNames {
		a := e.Accts[n]
		accs = append(accs, authtypes.NewBaseAccount(a.Addr, a.Key.PubKey(), 0, 0))
		coins := sdk.NewCoins(sdk.NewCoin(DenomStake, sdkmath.NewInt(1_000_000_000)))
		switch {
		case len(n) > 5 && n[:5] == "noble":
			coins = coins.Add(sdk.NewCoin(DenomUSDC, big("1000000000000000"))).Add(sdk.NewCoin(DenomOther, big("1000000000000000")))
			if n == "noble0" {
				coins = coins.Add(sdk.NewCoin(DenomHuge, HugeSupply))
			}
		case n == "pool":
			coins = coins.Add(sdk.NewCoin(DenomUSDC, big("1000000000000000000"))).Add(sdk.NewCoin(DenomOther, big("1000000000000000000")))
		case n == "depositor":
			coins = coins.Add(sdk.NewCoin(DenomUSDC, big("1000000000000"))).Add(sdk.NewCoin(DenomOther, big("1000000000000")))
		}
		bals = append(bals, banktypes.Balance{Address: a.Addr.String(), Coins: coins})
	}
	g, err := simtestutil.GenesisStateWithValSet(cdc, g, valSet, accs, bals...)
	if err != nil {
		panic(err)
	}
	var bankGen banktypes.GenesisState
	cdc.MustUnmarshalJSON(g[banktypes.ModuleName], &bankGen)
	bankGen.DenomMetadata = []banktypes.Metadata{{
		Description: "USD Coin",
		DenomUnits:  []*banktypes.DenomUnit{{Denom: "uusdc", Exponent: 0, Aliases: []string{"microusdc"}}, {Denom: "usdc", Exponent: 6}},
		Base:        "uusdc", Display: "usdc", Name: "usdc", Symbol: "usdc",
	}}
	g[banktypes.ModuleName] = cdc.MustMarshalJSON(&bankGen)
	circle := e.Circle.Addr.String()
	g["fiat-tokenfactory"] = cdc.MustMarshalJSON(&ftftypes.GenesisState{
		Paused:       &ftftypes.Paused{Paused: false},
		Pauser:       &ftftypes.Pauser{Address: circle},
		Owner:        &ftftypes.Owner{Address: circle},
		Blacklister:  &ftftypes.Blacklister{Address: circle},
		MasterMinter: &ftftypes.MasterMinter{Address: circle},
		MintersList:  []ftftypes.Minters{{Address: e.CCTPMod.String(), Allowance: sdk.NewCoin(DenomUSDC, big("1000000000000000000"))}},
		MintingDenom: &ftftypes.MintingDenom{Denom: DenomUSDC},
	})
	var tms []cctptypes.RemoteTokenMessenger
	for _, d := range CCTPDomains {
		tms = append(tms, cctptypes.RemoteTokenMessenger{DomainId: d, Address: pad32(byte(100 + d))})
	}
	g["cctp"] = cdc.MustMarshalJSON(&cctptypes.GenesisState{
		Owner: circle, AttesterManager: circle, Pauser: circle, TokenController: circle,
		TokenMessengerList:                tms,
		BurningAndMintingPaused:           &cctptypes.BurningAndMintingPaused{Paused: false},
		SendingAndReceivingMessagesPaused: &cctptypes.SendingAndReceivingMessagesPaused{Paused: false},
		PerMessageBurnLimitList:           []cctptypes.PerMessageBurnLimit{{Denom: DenomUSDC, Amount: BurnLimit}},
		MaxMessageBodySize:                &cctptypes.MaxMessageBodySize{Amount: 8000},
		NextAvailableNonce:                &cctptypes.Nonce{Nonce: 0},
		SignatureThreshold:                &cctptypes.SignatureThreshold{Amount: 1},
	})
	if orbiterGen != nil {
		g["orbiter"] = cdc.MustMarshalJSON(orbiterGen)
	}
	bz, err := json.Marshal(g)
	if err != nil {
		panic(err)
	}
	return bz
}

// newGenesisOnlyNode: a fresh application instance initialised through real InitChain with the
// environment genesis and the given orbiter section (no set-up blocks).
func newGenesisOnlyNode(env *Env, orbiterGen *orbitertypes.GenesisState) *Node {
	n := &Node{Env: env, db: dbm.NewMemDB(), now: GenesisTime}
	priv := ed25519.GenPrivKeyFromSecret([]byte("orbsim/validator"))
	n.valSet = cmttypes.NewValidatorSet([]*cmttypes.Validator{cmttypes.NewValidator(priv.PubKey(), 1)})
	n.Boot()
	_, err := n.App.InitChain(&abci.RequestInitChain{
		ChainId: ChainID, ConsensusParams: simtestutil.DefaultConsensusParams,
		AppStateBytes: env.genesis(n.App, n.valSet, orbiterGen), Time: n.now,
	})
	if err != nil {
		panic(err)
	}
	n.mustBlock()
	return n
}

// NewWorld boots a node and performs the seed-independent set-up blocks:
// channel handshakes, Hyperlane objects, initial outward transfers that give the
// remote users vouchers (and the A-end escrows their funds).
// worldOrbiterGenesis: when set, the next world starts from this orbiter genesis section instead of the default one.
var worldOrbiterGenesis *orbitertypes.GenesisState

// saturatedStatsGenesis: a validated genesis whose dispatch statistics sit at the top of their ranges for every
// route out of every channel (totals 2^256-1, counters 2^64-1): every statistics update of the run fails.
func saturatedStatsGenesis() *orbitertypes.GenesisState {
	g := orbitertypes.DefaultGenesisState()
	maxInt, _ := sdkmath.NewIntFromString("115792089237316195423570985008687907853269984665640564039457584007913129639935")
	for p := 0; p < NumPairs; p++ {
		src := core.CrossChainID{ProtocolId: core.PROTOCOL_IBC, CounterpartyId: chanA(p)}
		add := func(proto core.ProtocolID, cp string) {
			s, d := src, core.CrossChainID{ProtocolId: proto, CounterpartyId: cp}
			g.DispatcherGenesis.DispatchedCounts = append(g.DispatcherGenesis.DispatchedCounts, dispatchertypes.DispatchCountEntry{SourceId: &s, DestinationId: &d, Count: math.MaxUint64})
			for _, den := range []string{DenomUSDC, DenomOther, DenomHuge} {
				s2, d2 := src, d
				g.DispatcherGenesis.DispatchedAmounts = append(g.DispatcherGenesis.DispatchedAmounts, dispatchertypes.DispatchedAmountEntry{SourceId: &s2, DestinationId: &d2, Denom: den, AmountDispatched: dispatchertypes.AmountDispatched{Incoming: maxInt, Outgoing: maxInt}})
			}
		}
		for _, d := range CCTPDomains {
			add(core.PROTOCOL_CCTP, fmt.Sprint(d))
		}
		for _, d := range HypDomains {
			add(core.PROTOCOL_HYPERLANE, fmt.Sprint(d))
		}
		add(core.PROTOCOL_INTERNAL, "noble")
	}
	if err := g.Validate(); err != nil {
		panic(harnessErr("saturated statistics genesis does not validate: %v", err))
	}
	return g
}

func NewWorld(onBoot func(n *Node)) *Node {
	env := newEnv()
	n := &Node{Env: env, db: dbm.NewMemDB(), now: GenesisTime, OnBoot: onBoot}
	priv := ed25519.GenPrivKeyFromSecret([]byte("orbsim/validator"))
	n.valSet = cmttypes.NewValidatorSet([]*cmttypes.Validator{cmttypes.NewValidator(priv.PubKey(), 1)})
	n.Boot()
	_, err := n.App.InitChain(&abci.RequestInitChain{
		ChainId: ChainID, ConsensusParams: simtestutil.DefaultConsensusParams,
		AppStateBytes: env.genesis(n.App, n.valSet, worldOrbiterGenesis), Time: n.now,
	})
	worldOrbiterGenesis = nil
	if err != nil {
		panic(err)
	}
	n.mustBlock() // height 1
	rel := env.Relayers[0]
	sig := rel.Addr.String()
	// channel handshakes: one block per step so that identifiers are predictable
	var t1, t2, t3, t4 []*PendingTx
	for p := 0; p < NumPairs; p++ {
		t1 = append(t1, &PendingTx{Signer: rel, Gas: 1_000_000, Msgs: []sdk.Msg{&channeltypes.MsgChannelOpenInit{PortId: "transfer", Channel: channeltypes.NewChannel(channeltypes.INIT, channeltypes.UNORDERED, channeltypes.NewCounterparty("transfer", ""), localConn, "ics20-1"), Signer: sig}}})
		t1 = append(t1, &PendingTx{Signer: rel, Gas: 1_000_000, Msgs: []sdk.Msg{&channeltypes.MsgChannelOpenTry{PortId: "transfer", Channel: channeltypes.NewChannel(channeltypes.TRYOPEN, channeltypes.UNORDERED, channeltypes.NewCounterparty("transfer", chanA(p)), localConn, "ics20-1"), CounterpartyVersion: "ics20-1", ProofInit: sentinel, ProofHeight: proofHeight, Signer: sig}}})
		t3 = append(t3, &PendingTx{Signer: rel, Gas: 1_000_000, Msgs: []sdk.Msg{&channeltypes.MsgChannelOpenAck{PortId: "transfer", ChannelId: chanA(p), CounterpartyChannelId: chanB(p), CounterpartyVersion: "ics20-1", ProofTry: sentinel, ProofHeight: proofHeight, Signer: sig}}})
		t4 = append(t4, &PendingTx{Signer: rel, Gas: 1_000_000, Msgs: []sdk.Msg{&channeltypes.MsgChannelOpenConfirm{PortId: "transfer", ChannelId: chanB(p), ProofAck: sentinel, ProofHeight: proofHeight, Signer: sig}}})
	}
	_ = t2
	n.mustTxs(t1)
	n.mustTxs(t3)
	n.mustTxs(t4)

	// Hyperlane
	ho := env.HypOwner
	hs := ho.Addr.String()
	res := n.mustTxs([]*PendingTx{{Signer: ho, Gas: 2_000_000, Msgs: []sdk.Msg{&ismtypes.MsgCreateNoopIsm{Creator: hs}}}, {Signer: ho, Gas: 2_000_000, Msgs: []sdk.Msg{&pdtypes.MsgCreateNoopHook{Owner: hs}}}})
	var ismRes ismtypes.MsgCreateNoopIsmResponse
	var hookRes pdtypes.MsgCreateNoopHookResponse
	decodeResp(res.TxResults[0], &ismRes)
	decodeResp(res.TxResults[1], &hookRes)
	env.HypISM, env.HypHook = ismRes.Id, hookRes.Id
	res = n.mustTxs([]*PendingTx{{Signer: ho, Gas: 2_000_000, Msgs: []sdk.Msg{&hypcoretypes.MsgCreateMailbox{Owner: hs, LocalDomain: HypLocalDom, DefaultIsm: env.HypISM, DefaultHook: &env.HypHook, RequiredHook: &env.HypHook}}}})
	var mbRes hypcoretypes.MsgCreateMailboxResponse
	decodeResp(res.TxResults[0], &mbRes)
	env.HypMailbox = mbRes.Id
	for _, d := range []string{DenomUSDC, DenomHuge} {
		res = n.mustTxs([]*PendingTx{{Signer: ho, Gas: 2_000_000, Msgs: []sdk.Msg{&warptypes.MsgCreateCollateralToken{Owner: hs, OriginMailbox: env.HypMailbox, OriginDenom: d}}}})
		var tr warptypes.MsgCreateCollateralTokenResponse
		decodeResp(res.TxResults[0], &tr)
		env.HypTokens[d] = tr.Id
		var txs []*PendingTx
		for _, dom := range HypDomains {
			txs = append(txs, &PendingTx{Signer: ho, Gas: 2_000_000, Msgs: []sdk.Msg{&warptypes.MsgEnrollRemoteRouter{Owner: hs, TokenId: tr.Id, RemoteRouter: &warptypes.RemoteRouter{ReceiverDomain: dom, ReceiverContract: "0x" + fmt.Sprintf("%064x", dom), Gas: sdkmath.ZeroInt()}}}})
		}
		n.mustTxs(txs)
	}

	// Hyperlane with an interchain gas paymaster (IGP): fees in `stake`, charged to the sender of the remote transfer
	res = n.mustTxs([]*PendingTx{{Signer: ho, Gas: 2_000_000, Msgs: []sdk.Msg{&pdtypes.MsgCreateIgp{Owner: hs, Denom: DenomStake}}}})
	var igpRes pdtypes.MsgCreateIgpResponse
	decodeResp(res.TxResults[0], &igpRes)
	env.HypIGP = igpRes.Id
	var gcs []*PendingTx
	for _, dom := range HypDomains {
		gcs = append(gcs, &PendingTx{Signer: ho, Gas: 2_000_000, Msgs: []sdk.Msg{&pdtypes.MsgSetDestinationGasConfig{Owner: hs, IgpId: env.HypIGP, DestinationGasConfig: &pdtypes.DestinationGasConfig{RemoteDomain: dom, GasOracle: &pdtypes.GasOracle{TokenExchangeRate: sdkmath.NewInt(10_000_000_000), GasPrice: sdkmath.NewInt(1)}, GasOverhead: sdkmath.NewInt(1000)}}}})
	}
	n.mustTxs(gcs)
	res = n.mustTxs([]*PendingTx{{Signer: ho, Gas: 2_000_000, Msgs: []sdk.Msg{&hypcoretypes.MsgCreateMailbox{Owner: hs, LocalDomain: HypLocalDom, DefaultIsm: env.HypISM, DefaultHook: &env.HypIGP, RequiredHook: &env.HypHook}}}})
	var mb2 hypcoretypes.MsgCreateMailboxResponse
	decodeResp(res.TxResults[0], &mb2)
	env.HypMailbox2 = mb2.Id
	res = n.mustTxs([]*PendingTx{{Signer: ho, Gas: 2_000_000, Msgs: []sdk.Msg{&warptypes.MsgCreateCollateralToken{Owner: hs, OriginMailbox: env.HypMailbox2, OriginDenom: DenomOther}}}})
	var igpTok warptypes.MsgCreateCollateralTokenResponse
	decodeResp(res.TxResults[0], &igpTok)
	env.HypIGPToken = igpTok.Id
	var rts []*PendingTx
	for _, dom := range HypDomains {
		rts = append(rts, &PendingTx{Signer: ho, Gas: 2_000_000, Msgs: []sdk.Msg{&warptypes.MsgEnrollRemoteRouter{Owner: hs, TokenId: igpTok.Id, RemoteRouter: &warptypes.RemoteRouter{ReceiverDomain: dom, ReceiverContract: "0x" + fmt.Sprintf("%064x", dom), Gas: sdkmath.NewInt(50000)}}}})
	}
	n.mustTxs(rts)

	// Seed vouchers: noble0 sends each denom over each pair to each remote user.
	type seedPkt struct {
		pair int
		data transfertypes.FungibleTokenPacketData
	}
	var sends []*PendingTx
	var pkts []seedPkt
	src := env.Noble[0]
	amounts := map[string]string{DenomUSDC: "50000000000000", DenomOther: "50000000000000"}
	for p := 0; p < NumPairs; p++ {
		for i, ru := range env.Remote[p] {
			for _, d := range []string{DenomUSDC, DenomOther} {
				amt, _ := sdkmath.NewIntFromString(amounts[d])
				sends = append(sends, &PendingTx{Signer: src, Gas: 2_000_000, Msgs: []sdk.Msg{transfertypes.NewMsgTransfer("transfer", chanA(p), sdk.NewCoin(d, amt), src.Addr.String(), ru.Addr.String(), clienttypes.ZeroHeight(), uint64(GenesisTime.Add(1000*time.Hour).UnixNano()), "")}})
				pkts = append(pkts, seedPkt{p, transfertypes.NewFungibleTokenPacketData(d, amt.String(), src.Addr.String(), ru.Addr.String(), "")})
			}
			_ = i
		}
	}
	// The huge denom goes to remote user 0 of pair 0 entirely.
	sends = append(sends, &PendingTx{Signer: src, Gas: 2_000_000, Msgs: []sdk.Msg{transfertypes.NewMsgTransfer("transfer", chanA(0), sdk.NewCoin(DenomHuge, HugeSupply), src.Addr.String(), env.Remote[0][0].Addr.String(), clienttypes.ZeroHeight(), uint64(GenesisTime.Add(1000*time.Hour).UnixNano()), "")}})
	pkts = append(pkts, seedPkt{0, transfertypes.NewFungibleTokenPacketData(DenomHuge, HugeSupply.String(), src.Addr.String(), env.Remote[0][0].Addr.String(), "")})
	n.mustTxs(sends)
	seqs := map[int]uint64{}
	var recvs []*PendingTx
	for _, sp := range pkts {
		seqs[sp.pair]++
		pkt := channeltypes.NewPacket(sp.data.GetBytes(), seqs[sp.pair], "transfer", chanA(sp.pair), "transfer", chanB(sp.pair), clienttypes.ZeroHeight(), uint64(GenesisTime.Add(1000*time.Hour).UnixNano()))
		recvs = append(recvs, &PendingTx{Signer: rel, Gas: 2_000_000, Msgs: []sdk.Msg{&channeltypes.MsgRecvPacket{Packet: pkt, ProofCommitment: sentinel, ProofHeight: proofHeight, Signer: sig}}})
	}
	n.mustTxs(recvs)
	// Tokens with longer histories (for C16): remote1_0 gets pair 0's voucher of uusdc (so it can send a
	// token that is foreign to pair 1), and remote1_1 gets a two-hop voucher that returns over pair 1.
	far := uint64(GenesisTime.Add(1000 * time.Hour).UnixNano())
	amt := sdkmath.NewInt(1_000_000_000_000)
	seqs[0]++
	d1 := transfertypes.NewFungibleTokenPacketData(DenomUSDC, amt.String(), src.Addr.String(), env.Remote[1][0].Addr.String(), "")
	n.mustTxs([]*PendingTx{{Signer: src, Gas: 2_000_000, Msgs: []sdk.Msg{transfertypes.NewMsgTransfer("transfer", chanA(0), sdk.NewCoin(DenomUSDC, amt), src.Addr.String(), env.Remote[1][0].Addr.String(), clienttypes.ZeroHeight(), far, "")}}})
	n.mustTxs([]*PendingTx{{Signer: rel, Gas: 2_000_000, Msgs: []sdk.Msg{&channeltypes.MsgRecvPacket{Packet: channeltypes.NewPacket(d1.GetBytes(), seqs[0], "transfer", chanA(0), "transfer", chanB(0), clienttypes.ZeroHeight(), far), ProofCommitment: sentinel, ProofHeight: proofHeight, Signer: sig}}}})
	r0 := env.Remote[0][0]
	seqs[1]++
	d2 := transfertypes.NewFungibleTokenPacketData("transfer/"+chanB(0)+"/"+DenomUSDC, amt.String(), r0.Addr.String(), env.Remote[1][1].Addr.String(), "")
	n.mustTxs([]*PendingTx{{Signer: r0, Gas: 2_000_000, Msgs: []sdk.Msg{transfertypes.NewMsgTransfer("transfer", chanA(1), sdk.NewCoin(voucherOnB(0, DenomUSDC), amt), r0.Addr.String(), env.Remote[1][1].Addr.String(), clienttypes.ZeroHeight(), far, "")}}})
	n.mustTxs([]*PendingTx{{Signer: rel, Gas: 2_000_000, Msgs: []sdk.Msg{&channeltypes.MsgRecvPacket{Packet: channeltypes.NewPacket(d2.GetBytes(), seqs[1], "transfer", chanA(1), "transfer", chanB(1), clienttypes.ZeroHeight(), far), ProofCommitment: sentinel, ProofHeight: proofHeight, Signer: sig}}}})
	return n
}

// twoHopOnB1 is the bank denom of the two-hop voucher held by remote1_1.
func twoHopOnB1() string {
	return transfertypes.ParseDenomTrace("transfer/" + chanB(1) + "/transfer/" + chanB(0) + "/" + DenomUSDC).IBCDenom()
}

func decodeResp(r *abci.ExecTxResult, out gogoproto.Message) {
	var d sdk.TxMsgData
	if err := gogoproto.Unmarshal(r.Data, &d); err != nil {
		panic(err)
	}
	if len(d.MsgResponses) == 0 {
		panic("no msg responses")
	}
	if err := gogoproto.Unmarshal(d.MsgResponses[0].Value, out); err != nil {
		panic(err)
	}
}

func newApp(db dbm.DB) *simapp.SimApp {
	app, err := simapp.NewSimApp(log.NewNopLogger(), db, nil, true, simtestutil.EmptyAppOptions{}, baseapp.SetChainID(ChainID))
	if err != nil {
		panic(err)
	}
	return app
}

var _ = authtx.DefaultSignModes
