module orbsim

go 1.24.0
