package main

func baseProfile(name string) *Profile {
	return &Profile{
		Name: name, Own: map[string]bool{name: true},
		StepsMin: 25, StepsMax: 70,
		W: map[string]int{"send": 30, "sendout": 4, "deliver": 30, "ack": 8, "timeout": 4, "block": 25, "restart": 1, "dust": 4, "orbadmin": 6, "envadmin": 3, "byz": 2, "impostor": 1, "checkpoint": 0},
		ClassW:  map[string]int{"canon": 60, "refuse": 10, "free": 6, "plain": 8, "nearmiss": 4, "exotic": 3},
		RouteW:  []int{3, 3, 3},
		FeeW:    []int{3, 3, 2, 1, 1},
		ScaleW:  []int{5, 2, 2, 1},
		PassW:   []int{6, 2, 2, 1},
		GasCutP: 0.06, BatchP: 0.15, DupP: 0.08, TimeoutP: 0.1, SingleTxP: 0.5,
		StoreDigests: true,
	}
}

func profileFor(name string) *Profile {
	p := baseProfile(name)
	switch name {
	case "C07":
		p.Shadows = []string{"nomw"}
		p.ClassW = map[string]int{"canon": 15, "refuse": 3, "free": 5, "plain": 40, "nearmiss": 25, "exotic": 2}
		p.W["sendout"] = 14
		p.W["byz"] = 8
	case "C11":
		p.Shadows = []string{"nodust", "moredust"}
		p.W["dust"] = 16
	case "C08":
		p.Checkpoint = []string{"pausequeries"}
		p.W["checkpoint"] = 3
		p.Shadows = []string{"pausediff"}
		p.W["orbadmin"] = 18
	case "C09":
		p.Checkpoint = []string{"pausequeries"}
		p.W["checkpoint"] = 3
		p.Shadows = []string{"actiondiff"}
		p.W["orbadmin"] = 18
	case "C18":
		p.Checkpoint = []string{"pausequeries"}
		p.W["checkpoint"] = 2
		p.Shadows = []string{"limitup"}
		p.W["orbadmin"] = 14
		p.PassW = []int{2, 3, 4, 3}
	case "C13":
		p.Checkpoint = []string{"queries"}
		p.W["checkpoint"] = 3
		p.W["send"], p.W["deliver"] = 40, 40
		p.W["envadmin"], p.W["byz"] = 1, 0
		p.ClassW = map[string]int{"canon": 90, "refuse": 3, "free": 2, "plain": 3, "nearmiss": 1, "exotic": 1}
		p.StepsMin, p.StepsMax = 40, 90
	case "C17":
		p.Checkpoint = []string{"genesis"}
		p.W["checkpoint"] = 2
		p.W["orbadmin"] = 14
	case "C10":
		p.Checkpoint = []string{"impostor"}
		p.W["checkpoint"] = 3
		p.W["impostor"] = 8
		p.W["orbadmin"] = 10
		p.StepsMin, p.StepsMax = 15, 40
	case "C20":
		p.Checkpoint = []string{"ids"}
		p.W["checkpoint"] = 3
		p.W["orbadmin"] = 10
		p.StepsMin, p.StepsMax = 15, 40
	case "C19":
		p.Special = specialC19
		p.TraceCheck = traceCheckC19
		p.CrossProcess = func(seed uint64) bool { return seed%8 == 0 }
		p.ClassW = map[string]int{"canon": 30, "refuse": 12, "free": 14, "plain": 6, "nearmiss": 4, "exotic": 6, "multierr": 28}
		p.W["byz"] = 6
		p.StoreDigests = false
	case "C03":
		p.Special, p.SpecialReplay = specialC03, replayC03
		p.Own["C14"] = false
		p.Level = "fault_enumeration"
	case "C05B":
		p.Special, p.SpecialReplay = specialC05, replayC05
		p.Own = map[string]bool{"C05": true}
	case "C06":
		p.Special, p.SpecialReplay = specialC06, replayC06
	case "ALL":
		p.Shadows = []string{"nomw", "nodust", "moredust", "pausediff", "actiondiff", "limitup"}
	}
	return p
}
