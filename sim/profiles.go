package main

import (
	"os"
	"strconv"
	"strings"
)

// Per-property swarm profiles: which actors are emphasised, which differential variants and
// audits run, and what the evidence file says about what a non-trivial case is.

func baseProfile(name string) *Profile {
	return &Profile{
		Name: name, Own: map[string]bool{name: true},
		StepsMin: 25, StepsMax: 70,
		W:       map[string]int{"send": 30, "sendout": 4, "sendodd": 1, "deliver": 30, "ack": 8, "timeout": 4, "block": 25, "restart": 1, "dust": 4, "orbadmin": 6, "envadmin": 3, "byz": 2, "impostor": 1, "checkpoint": 0},
		ClassW:  map[string]int{"canon": 60, "refuse": 10, "free": 6, "plain": 8, "nearmiss": 4, "exotic": 3, "multierr": 1},
		RouteW:  []int{3, 3, 3},
		FeeW:    []int{3, 3, 2, 1, 1},
		ScaleW:  []int{5, 2, 2, 1},
		PassW:   []int{6, 2, 2, 1},
		GasCutP: 0.06, BatchP: 0.15, DupP: 0.08, TimeoutP: 0.1, SingleTxP: 0.5, EmptyFeeP: 0.04, InitLimitP: 0.35, SimP: 0.12, CrashP: 0.04, ByzPlainP: 0.1, BigPassP: 0.004, ModDepositP: 0.01, GhostTokenP: 0.0015, BigBatchP: 0.04,
		StoreDigests: true,
		EvidenceRule: "each evaluation is one seeded simulated run: a generated schedule of 25-70 actor events (remote users, relayers, consensus, orbiter authority, downstream admins, dust depositor, byzantine chain, operator) executed against the real application, followed by a drain (faults healed, everything relayed, one probe per route). A run is non-trivial when at least one rule of this property was actually evaluated in it; distinct_nontrivial counts distinct abstract states at packet-delivery instants (paused-protocol set, paused-pair set, paused-action set, limit bucket, number of statistics keys, dust present, environment-health vector, route, receiver encoding).",
	}
}

func profileFor(name string) *Profile {
	p := profileFor0(name)
	if v := os.Getenv("VERIF_MODDEP"); v != "" {
		// debugging aid: a stress value for the deposits to module addresses
		if f, err := strconv.ParseFloat(v, 64); err == nil {
			p.ModDepositP = f
		}
	}
	// debugging aid: report violations of further properties seen in this profile's runs
	for _, x := range strings.Split(os.Getenv("VERIF_OWN_EXTRA"), ",") {
		if x != "" {
			p.Own[x] = true
		}
	}
	return p
}

func profileFor0(name string) *Profile {
	p := baseProfile(name)
	switch name {
	case "C01":
		p.ModeBEvery, p.InjectP = 4, 0.3
		p.SatGenesisEvery = 12
		p.GhostTokenP = 0.008
		p.ClassW["nearmiss"], p.ClassW["canon"] = 8, 70
		p.W["dust"], p.W["envadmin"], p.W["byz"] = 8, 5, 8
	case "C02":
		p.ModeBEvery, p.InjectP = 4, 0.3
		p.SatGenesisEvery = 8
		p.GhostTokenP = 0.008
		p.ScaleW = []int{4, 2, 3, 3}
		p.W["dust"] = 8
	case "C04":
		p.SpecialEvery = 6
		p.Special, p.SpecialReplay = specialC03, replayC03
		p.Assumptions = append(p.Assumptions, "one run in six is a mode-B scenario check (the C03 enumeration): every downstream call of a delivery with fees fails once per mode and per error class; a transfer that is still acknowledged must have credited every fee entry exactly as the fault-free delivery does")
		p.ClassW = map[string]int{"canon": 70, "refuse": 30, "free": 2, "plain": 2, "nearmiss": 0, "exotic": 4, "multierr": 0}
		p.RefuseKinds = []string{"C04"}
		p.FeeW = []int{1, 3, 4, 3, 4}
		p.ScaleW = []int{3, 5, 3, 3}
		p.W["orbadmin"], p.W["envadmin"], p.W["byz"] = 2, 1, 0
	case "C05":
		p.SpecialEvery = 2
		p.Special, p.SpecialReplay = specialC05, replayC05
		p.NonTrivialCounters = []string{"rule:C05.recorded-request"}
		p.RefuseKinds = []string{"C05"}
		p.ClassW["refuse"] = 20
		p.Assumptions = []string{"every second run is a mode-B run: a second orbiter keeper built from the public constructors on the same store with recording wrappers around CCTP, Hyperlane and the bank message server (the wiring of depinject.go is re-stated by the harness there and is exercised by the mode-A runs)"}
	case "C05B":
		p.Special, p.SpecialReplay = specialC05, replayC05
		p.Own = map[string]bool{"C05": true}
	case "C06":
		p.Special, p.SpecialReplay = specialC06, replayC06
		p.EvidenceRule = "each evaluation is one mode-B world (interposed keeper with the fee controller and a denomination-changing test action registered under ACTION_SWAP) in which ten drawn action programs ([fee], [swap], [fee,swap], [swap,fee], repeated identifiers; drawn rates, amounts, routes, dust) are executed on branches of the committed state and compared with the model's fold; distinct_nontrivial counts distinct (action order, denominations, route, outcome) combinations."
		p.Assumptions = []string{"mode B re-states about 40 lines of wiring; the swap action is harness code using the real bank keeper"}
	case "C07":
		p.Shadows = []string{"nomw"}
		p.ByzPlainP = 0.5
		p.ClassW = map[string]int{"canon": 15, "refuse": 3, "free": 5, "plain": 40, "nearmiss": 25, "exotic": 2, "multierr": 2}
		p.W["sendout"], p.W["byz"], p.W["orbadmin"] = 14, 10, 10
	case "C08":
		p.SpecialEvery = 6
		p.Special, p.SpecialReplay = specialC03, replayC03
		p.Assumptions = append(p.Assumptions, "one run in six is a mode-B scenario check (the C03 enumeration with the orbiter's own store as a fault seam): the transfer is delivered with its protocol, pair or fee action paused while every store call fails once per error class - a pause holds whatever the store answers - and every store call of the unpaused delivery fails once per mode (no panic outside the injected ones)")
		p.Checkpoint = []string{"pausequeries"}
		p.W["checkpoint"], p.W["orbadmin"] = 3, 18
		p.Shadows = []string{"pausediff"}
	case "C09":
		p.SpecialEvery = 6
		p.Special, p.SpecialReplay = specialC03, replayC03
		p.Assumptions = append(p.Assumptions, "one run in six is a mode-B scenario check (the C03 enumeration with the orbiter's own store as a fault seam): the transfer is delivered with its protocol, pair or fee action paused while every store call fails once per error class - a pause holds whatever the store answers - and every store call of the unpaused delivery fails once per mode (no panic outside the injected ones)")
		p.Checkpoint = []string{"pausequeries"}
		p.W["checkpoint"], p.W["orbadmin"] = 3, 18
		p.Shadows = []string{"actiondiff"}
		p.RefuseKinds = []string{"C05:action", "C06:duplicate", "C04:six", "C04:bps-zero"}
		p.ClassW["refuse"] = 14
		p.FeeW = []int{3, 3, 2, 1, 1}
		p.EmptyFeeP = 0.15
	case "C10":
		p.Checkpoint = []string{"impostor"}
		p.SimP = 0.3
		p.W["checkpoint"], p.W["impostor"], p.W["orbadmin"] = 3, 8, 10
		p.StepsMin, p.StepsMax = 15, 40
		p.EvidenceRule = "each evaluation is one simulated run in which impostor accounts send real signed admin transactions and, at checkpoints, every Msg RPC of the module (enumerated from the protobuf service descriptors linked into the binary and filtered by the app's MsgServiceRouter) is called on a branch with signers that do not denote the authority (other accounts, module accounts, empty, malformed, fragments and paddings of the authority); distinct_nontrivial counts distinct (RPC, signer class, body kind) combinations plus abstract states."
	case "C11":
		p.Shadows = []string{"nodust", "moredust"}
		p.W["dust"] = 16
	case "C12":
		p.ModeBEvery, p.InjectP = 2, 0.2
		p.W["restart"] = 3
		p.Assumptions = []string{"every second run uses the interposed (mode B) node, where a denomination-changing test action is registered under ACTION_SWAP and lone deliveries may get an injected downstream failure", "a run whose fold leaves the range of a 256-bit integer in some entry is not compared further (no implementation can record such a total)"}
	case "C13":
		p.ModeBEvery = 3 // every third run on the interposed node: its query audits also run under store faults
		p.Assumptions = append(p.Assumptions, "every third run uses the interposed (mode B) node; there the listings and a direct lookup are also answered by the interposed keeper's query server while each store call of the query fails once: the answer must be the fault-free one or an error")
		p.Checkpoint = []string{"queries"}
		p.W["checkpoint"] = 3
		p.W["send"], p.W["deliver"] = 40, 40
		p.W["envadmin"], p.W["byz"] = 1, 0
		p.ClassW = map[string]int{"canon": 90, "refuse": 3, "free": 2, "plain": 3, "nearmiss": 1, "exotic": 1, "multierr": 0}
		p.StepsMin, p.StepsMax = 40, 90
	case "C14":
		p.SpecialEvery = 6
		p.Special, p.SpecialReplay = specialC03, replayC03
		p.Assumptions = append(p.Assumptions, "one run in six is a mode-B scenario check (the C03 enumeration with the orbiter's own store as a fault seam): the transfer is delivered with its protocol, pair or fee action paused while every store call fails once per error class - a pause holds whatever the store answers - and every store call of the unpaused delivery fails once per mode (no panic outside the injected ones)")
		p.ClassW = map[string]int{"canon": 25, "refuse": 20, "free": 40, "plain": 4, "nearmiss": 4, "exotic": 25, "multierr": 8}
		p.W["byz"], p.W["envadmin"], p.W["dust"] = 14, 4, 6
		p.ModDepositP = 0.05
		p.ScaleW = []int{3, 2, 3, 3}
		p.BatchP = 0.3
	case "C16":
		p.W["sendodd"], p.W["byz"], p.W["sendout"], p.W["dust"] = 14, 10, 8, 10
		p.RefuseKinds = []string{"C16"}
		p.ModDepositP = 0.03
		p.ClassW["refuse"] = 16
		p.RouteW = []int{2, 5, 3}
		p.InitLimitP = 0.6
		p.PassW = []int{3, 4, 2, 1}
	case "C17":
		p.Checkpoint = []string{"genesis"}
		p.BigBatchP = 0.15
		p.W["checkpoint"], p.W["orbadmin"] = 2, 14
	case "C18":
		p.Checkpoint = []string{"pausequeries"}
		p.W["checkpoint"], p.W["orbadmin"] = 2, 14
		p.Shadows = []string{"limitup"}
		p.BigPassP = 0.05
		p.PassW = []int{2, 3, 4, 3}
	case "C19":
		p.GhostTokenP, p.CrashP = 0.008, 0.12
		p.Special = specialC19
		p.TraceCheck = traceCheckC19
		p.CrossProcess = func(seed uint64) bool { return seed%8 == 0 }
		p.ClassW = map[string]int{"canon": 30, "refuse": 12, "free": 14, "plain": 6, "nearmiss": 4, "exotic": 6, "multierr": 28}
		p.W["byz"] = 6
		p.StoreDigests = false
		p.NonTrivialCounters = []string{"rule:C19.replay-twin"}
		p.EvidenceRule = "each evaluation is one simulated run executed twice in-process (generation, then replay of the recorded trace on a second application instance); one run in eight is executed again in two further OS processes (GOMAXPROCS 1 and 7, fresh runtime hash seeds). Compared per block: AppHash, tx codes and gas, event lists in order (including acknowledgement bytes), and at the end exported genesis and all balances. distinct_nontrivial counts distinct abstract states at delivery instants."
	case "C20":
		p.Checkpoint = []string{"ids"}
		p.W["checkpoint"], p.W["orbadmin"] = 3, 10
		p.StepsMin, p.StepsMax = 15, 40
	case "C03":
		p.SpecialEvery = 2
		p.ModeBEvery, p.InjectP = 3, 0.4
		p.W["envadmin"] = 14
		p.GasCutP = 0.15
		p.NonTrivialCounters = []string{"injected_executions", "rule:C03.refund"}
		p.Special, p.SpecialReplay = specialC03, replayC03
		p.Level = "fault_enumeration"
		p.EvidenceRule = "each evaluation is one mode-B world with one drawn known-good scenario (route x fee shape x dust x passthrough); its dynamic call sequence at the interposed seams (bank sends, dust sweep, wrapped ICS-20 application, CCTP / Hyperlane / internal message servers, Hyperlane token query, event manager) is recorded by a fault-free dry run, then EVERY single call is failed (before and after its side effects, by panicking, and once per registered error class) and EVERY pair of calls, each on a fresh branch; the orbiter's own key-value store is a seam too: every store call of the delivery fails once per mode, and the delivery is repeated with its protocol, pair and fee action paused while every store call fails once per error class; one drawn fault per scenario is also delivered for real through IBC core and its acknowledgement relayed back. Exhaustive per scenario, sampled over scenarios. distinct_nontrivial counts distinct (route, failing site and occurrence, before/after, single/pair) combinations that actually fired."
		p.Assumptions = []string{"mode B re-states about 40 lines of wiring (the real wiring is exercised by the mode-A natural-failure runs of C01/C02/C12)", "store faults are injected at the KVStoreService boundary of the orbiter module only (IAVL/MemDB below it and the stores of other modules run unfaulted); a swallowed failure of a statistics write after the bridge request is what the dispatcher documents and is accepted when the fund movements are unchanged"}
	case "C03A":
		// mode-A part of C03: natural failures (blacklists, pauses, burn limit, missing messenger/router), gas cuts, restarts
		p.Own = map[string]bool{"C03": true}
		p.W["envadmin"] = 14
		p.GasCutP = 0.15
	case "ALL":
		p.Shadows = []string{"nomw", "nodust", "moredust", "pausediff", "actiondiff", "limitup"}
		p.Checkpoint = []string{"queries", "pausequeries", "genesis", "impostor", "ids"}
		p.W["checkpoint"] = 2
	}
	return p
}
