package main

import (
	"fmt"
	"runtime/debug"
)

// curTier is set by the worker (quick|thorough); the developer entry point leaves it empty.
var curTier string

// RunResult is what one simulated run produced.
type RunResult struct {
	Seed       uint64
	Trace      []Op
	Viol       []Violation
	Stats      *RunStats
	HashLog    []string
	Log        []string
	HarnessErr string
	Extra      any // special checks: replay payload
	Final      string
	AckLog     []string
}

// runGenerate performs one seeded run: generate-and-execute, then drain.
func runGenerate(prof *Profile, seed uint64, verbose bool) (res *RunResult) {
	res = &RunResult{Seed: seed}
	var s *Sim
	defer func() {
		if r := recover(); r != nil {
			if he, ok := r.(harnessError); ok {
				res.HarnessErr = he.msg
			} else {
				res.HarnessErr = fmt.Sprintf("panic in harness: %v\n%s", r, debug.Stack())
			}
		}
		if s != nil {
			res.Viol, res.Stats, res.HashLog, res.Log, res.AckLog = s.Viol, s.Stats, s.HashLog, s.Log, s.AckLog
			if res.HarnessErr == "" {
				func() {
					defer func() { recover() }()
					res.Final = s.finalDigest()
				}()
			}
		}
	}()
	r := NewRng(seed)
	if prof.ModeBEvery > 0 && seed%uint64(prof.ModeBEvery) == 0 {
		s = newModeBSim(prof)
		res.Trace = append(res.Trace, Op{ID: 0, K: "mode", Msg: "B"})
	} else if prof.SatGenesisEvery > 0 && seed%uint64(prof.SatGenesisEvery) == 1 {
		// the chain starts from a genesis whose statistics are saturated: every statistics update of the run fails
		worldOrbiterGenesis = saturatedStatsGenesis()
		s = NewSim(prof)
		s.statsTainted = true
		s.Stats.Fault("statistics_saturated_by_genesis")
		res.Trace = append(res.Trace, Op{ID: 0, K: "mode", Msg: "S"})
	} else {
		s = NewSim(prof)
	}
	s.Verbose = verbose
	g := newGen(r, prof)
	steps := prof.StepsMin + r.Intn(prof.StepsMax-prof.StepsMin+1)
	if curTier == "thorough" && seed%4 == 1 {
		steps *= 3 // the thorough tier also runs longer histories
	}
	for i := 0; i < steps; i++ {
		op := g.Next(s)
		res.Trace = append(res.Trace, op)
		s.curOp = op.ID
		s.Exec(op)
	}
	d := Op{ID: g.id(), K: "drain"}
	res.Trace = append(res.Trace, d)
	s.Exec(d)
	return res
}

// runReplay executes a recorded trace.
func runReplay(prof *Profile, trace []Op, verbose bool) (res *RunResult) {
	return runReplayOpt(prof, trace, verbose, false)
}

// runReplayOpt: restartEveryBlock rebuilds the application from the DB before every block.
func runReplayOpt(prof *Profile, trace []Op, verbose bool, restartEveryBlock bool) (res *RunResult) {
	res = &RunResult{Trace: trace}
	var s *Sim
	defer func() {
		if r := recover(); r != nil {
			if he, ok := r.(harnessError); ok {
				res.HarnessErr = he.msg
			} else {
				res.HarnessErr = fmt.Sprintf("panic in harness: %v\n%s", r, debug.Stack())
			}
		}
		if s != nil {
			res.Viol, res.Stats, res.HashLog, res.Log, res.AckLog = s.Viol, s.Stats, s.HashLog, s.Log, s.AckLog
			if res.HarnessErr == "" {
				func() {
					defer func() { recover() }()
					res.Final = s.finalDigest()
				}()
			}
		}
	}()
	if len(trace) > 0 && trace[0].K == "mode" && trace[0].Msg == "B" {
		s = newModeBSim(prof)
	} else if len(trace) > 0 && trace[0].K == "mode" && trace[0].Msg == "S" {
		worldOrbiterGenesis = saturatedStatsGenesis()
		s = NewSim(prof)
		s.statsTainted = true
		s.Stats.Fault("statistics_saturated_by_genesis")
	} else {
		s = NewSim(prof)
	}
	s.Verbose = verbose
	s.RestartEveryBlock = restartEveryBlock
	for _, op := range trace {
		s.curOp = op.ID
		s.Exec(op)
	}
	return res
}
