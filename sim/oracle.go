package main

// Oracles evaluated while a run proceeds. Rules are implications attached to what the
// model can conclude about a packet; everything is read from committed results.

import (
	"encoding/base64"
	"encoding/hex"
	"encoding/json"
	"fmt"
	"math/big"
	"regexp"
	"sort"
	"strconv"
	"strings"

	sdkmath "cosmossdk.io/math"
	sdk "github.com/cosmos/cosmos-sdk/types"
	authtypes "github.com/cosmos/cosmos-sdk/x/auth/types"
	transfertypes "github.com/cosmos/ibc-go/v8/modules/apps/transfer/types"
)

type sdkInt = sdkmath.Int

func newSdkInt(b *big.Int) sdkmath.Int { return sdkmath.NewIntFromBigInt(new(big.Int).Set(b)) }

type PktInfo struct {
	ICS        bool
	D          ICS20
	ToOrbiter  bool
	RecvEnc    string // lower | upper | n/a
	Amount     *big.Int
	AmountOK   bool // canonical positive decimal
	Native     string
	DenomClass string // one-hop | sender-native | multi-hop | slashy | n/a
	Payload    *MPayload
	Canon      bool
	KnownGood  bool
	WhyNotGood string
}

var reMultiHop = regexp.MustCompile(`^[a-zA-Z0-9._+\-#\[\]<>]+/channel-[0-9]+/`)

func (s *Sim) classify(p *Pkt) *PktInfo {
	in := &PktInfo{RecvEnc: "n/a", DenomClass: "n/a"}
	d, ok := parseICS20(p.Data)
	if !ok {
		return in
	}
	in.ICS, in.D = true, d
	if decodesTo(d.Receiver, s.Env.Orbiter) {
		in.ToOrbiter = true
		if strings.ToLower(d.Receiver) == d.Receiver {
			in.RecvEnc = "lower"
		} else {
			in.RecvEnc = "upper"
		}
	}
	if decRe(d.Amount) && d.Amount != "0" {
		in.Amount, _ = new(big.Int).SetString(d.Amount, 10)
		in.AmountOK = in.Amount.Cmp(max256) <= 0
	}
	prefix := "transfer/" + p.SrcChan + "/"
	switch {
	case !strings.HasPrefix(d.Denom, prefix):
		in.DenomClass = "sender-native"
	default:
		rest := d.Denom[len(prefix):]
		switch {
		case rest == "":
			in.DenomClass = "slashy"
		case !strings.Contains(rest, "/"):
			in.DenomClass, in.Native = "one-hop", rest
		case reMultiHop.MatchString(rest):
			in.DenomClass = "multi-hop"
		default:
			in.DenomClass = "slashy"
		}
	}
	if in.ToOrbiter {
		in.Payload, in.Canon = parsePayload(d.Memo)
		if in.Canon {
			in.KnownGood, in.WhyNotGood = s.knownGood(in)
		}
	}
	return in
}

func allZero(b []byte) bool {
	for _, x := range b {
		if x != 0 {
			return false
		}
	}
	return true
}

// knownGood: the payload belongs to the family for which the model asserts "must
// succeed on a healthy, unpaused environment". Deliberately narrow.
func (s *Sim) knownGood(in *PktInfo) (bool, string) {
	p := in.Payload
	if p.Swap != nil {
		return false, "denomination-changing test action"
	}
	if !in.AmountOK || in.DenomClass != "one-hop" {
		return false, "amount/denom"
	}
	switch p.Proto {
	case "PROTOCOL_CCTP":
		if in.Native != DenomUSDC {
			return false, "cctp needs uusdc"
		}
		if len(p.MintRecipient) != 32 || allZero(p.MintRecipient) {
			return false, "mint recipient"
		}
		if len(p.DestCaller) != 0 && (len(p.DestCaller) != 32 || allZero(p.DestCaller)) {
			return false, "destination caller"
		}
		ok := false
		for _, d := range CCTPDomains {
			if d == p.Domain {
				ok = true
			}
		}
		if !ok {
			return false, "unknown cctp domain"
		}
	case "PROTOCOL_HYPERLANE":
		if bytesEq(p.Token, s.Env.HypIGPToken.Bytes()) {
			return false, "token behind an interchain gas paymaster: needs fee funds on the orbiter account"
		}
		tok, ok := s.Env.HypTokens[in.Native]
		if !ok || !bytesEq(tok.Bytes(), p.Token) {
			return false, "token"
		}
		if len(p.Recipient32) != 32 || len(p.HookID) != 0 || p.HookMeta != "" {
			return false, "hyperlane params"
		}
		// this mailbox's hooks charge nothing: gas limit and max fee (any valid coin) are immaterial
		okDenom := p.MaxFeeDenom == DenomUSDC || p.MaxFeeDenom == DenomOther || p.MaxFeeDenom == DenomStake || p.MaxFeeDenom == DenomHuge
		if !okDenom || !decRe(p.GasLimit) || !decRe(p.MaxFeeAmt) || len(p.GasLimit) > 12 || len(p.MaxFeeAmt) > 12 {
			return false, "hyperlane fee params"
		}
		ok = false
		for _, d := range HypDomains {
			if d == p.Domain {
				ok = true
			}
		}
		if !ok {
			return false, "unknown hyperlane domain"
		}
	case "PROTOCOL_INTERNAL":
		a, ok := validNobleAddr(p.Recipient)
		if !ok {
			return false, "recipient"
		}
		name := s.Env.Name(sdk.AccAddress(a).String())
		if !(strings.HasPrefix(name, "rcpt") || strings.HasPrefix(name, "fee") || strings.HasPrefix(name, "noble")) {
			return false, "recipient not a plain user account"
		}
		if !in.Payload.PTNull && len(in.Payload.Passthrough) == 0 {
			// canonical internal forwarding has an empty, non-null passthrough
		}
	default:
		return false, "protocol"
	}
	for _, f := range p.Fees {
		if decodesTo(f.Recipient, s.Env.Orbiter) {
			return false, "fee recipient is the orbiter account"
		}
	}
	return true, ""
}

func bytesEq(a, b []byte) bool { return string(a) == string(b) }

func addrStr(b []byte) string { return sdk.AccAddress(b).String() }

// envHealthy: no environment fault touches a party of this packet.
func (s *Sim) envHealthy(in *PktInfo, fo *FeeOutcome) (bool, string) {
	e := s.EnvM
	p := in.Payload
	if in.Native == DenomUSDC {
		if e.FTFPaused {
			return false, "ftf paused"
		}
		parties := []string{s.Env.Orbiter.String(), s.Env.Dust.String()}
		if a, ok := validNobleAddr(in.D.Sender); ok {
			parties = append(parties, addrStr(a))
		} else {
			return false, "sender"
		}
		if fo != nil {
			for i, f := range p.Fees {
				if fo.Credits[i].Sign() > 0 {
					a, _ := validNobleAddr(f.Recipient)
					parties = append(parties, addrStr(a))
				}
			}
		}
		if p.Proto == "PROTOCOL_INTERNAL" {
			a, _ := validNobleAddr(p.Recipient)
			parties = append(parties, addrStr(a))
		}
		for _, a := range parties {
			if e.Blacklist[a] {
				return false, "blacklisted party"
			}
		}
	}
	for _, mod := range bridgeModules[p.Proto] {
		if s.squatted(mod) {
			return false, "the bridge's module address holds a plain account"
		}
	}
	switch p.Proto {
	case "PROTOCOL_CCTP":
		if e.CCTPPaused || e.CCTPMsgStop || !e.Messenger[p.Domain] {
			return false, "cctp unavailable"
		}
	case "PROTOCOL_HYPERLANE":
		if r := e.Router[in.Native]; r == nil || !r[p.Domain] {
			return false, "router missing"
		}
	}
	return true, ""
}

// handleDelivery evaluates one delivered packet. Returns true if the delivery left no
// application effect (refused or no-op).
func (s *Sim) handleDelivery(m *txMeta, p *Pkt, mo *MsgObs, sh *shadowResult) bool {
	was := mo.find("write_acknowledgement")
	if len(was) == 0 {
		// duplicate (NOOP) delivery
		if p.State == PktInFlight {
			panic(harnessErr("delivery of in-flight packet op=%d produced no acknowledgement", p.Origin))
		}
		s.Stats.Fault("dup_delivery")
		if p.SuccessDeliveries > 0 {
			s.Stats.Probe("duplicate_after_success")
		}
		if len(mo.Delta) > 0 || len(mo.Supply) > 0 {
			s.violate("C05", "exactly-once", "duplicate-delivery-had-effects", fmt.Sprintf("packet op=%d redelivered, bank changed: %v", p.Origin, renderDelta(s.Env, mo)))
		}
		s.logf("recv op=%d (pkt %d) NOOP duplicate", m.OpID, p.Origin)
		return true
	}
	ack := decodeAck(hexOf(was[0], "packet_ack"))
	p.State, p.Ack = PktReceived, ack.Bytes
	s.AckLog = append(s.AckLog, fmt.Sprintf("h=%d packet op=%d ack=%s", s.N.Height, p.Origin, ack.Bytes))
	in := s.classify(p)
	cls := "non-ics20"
	if in.ICS {
		cls = "plain"
		if in.ToOrbiter {
			cls = "orbiter"
		}
	}
	res := "err"
	if ack.Success {
		res = "ok"
	}
	s.Stats.Count("delivered:" + cls + ":" + res)
	s.logf("recv op=%d (pkt %d, class %s/%s) ack=%s %.220s", m.OpID, p.Origin, cls, p.Class, res, string(ack.Bytes))
	s.recordState(in)
	orb := s.Env.Orbiter.String()

	// ---- C01.R1 (any packet): success => the orbiter account gained nothing
	if ack.Success {
		s.Stats.Count("rule:C01.R1")
		for denom, v := range mo.Delta[orb] {
			if v.Sign() > 0 {
				route := "n/a"
				if in.Payload != nil {
					route = in.Payload.Proto
				}
				fp := fmt.Sprintf("orbiter-gained recv-enc=%s route=%s", in.RecvEnc, route)
				if in.Payload != nil && in.Payload.Proto == "PROTOCOL_INTERNAL" && decodesTo(in.Payload.Recipient, s.Env.Orbiter) {
					fp = "orbiter-gained internal-recipient=orbiter-account"
				}
				s.violate("C01", "R1-success-implies-no-gain", fp, fmt.Sprintf("packet op=%d: success ack but orbiter account gained %s%s (receiver %q)", p.Origin, v, denom, in.D.Receiver))
			}
		}
	}
	if sh != nil {
		s.checkShadow(m, p, in, mo, ack, sh)
	}
	if !in.ToOrbiter {
		if len(mo.find("noble.orbiter.component.adapter.v1.EventPayloadProcessed")) > 0 {
			s.violate("C07", "no-orbiter-processing", "payload-processed-for-foreign-receiver", fmt.Sprintf("packet op=%d receiver %q", p.Origin, in.D.Receiver))
		}
		return !ack.Success
	}
	// ---- packets addressed to the orbiter account
	if p.Class != "" {
		s.Stats.Count("class:" + classHead(p.Class) + ":" + res)
	}
	if !ack.Success {
		s.onRefused(p, in, mo, ack)
		return true
	}
	s.onAccepted(p, in, mo)
	return false
}

func classHead(c string) string {
	if i := strings.Index(c, ":"); i >= 0 {
		return c[:i]
	}
	return c
}

func renderDelta(e *Env, mo *MsgObs) []string {
	var out []string
	for a, dm := range mo.Delta {
		for d, v := range dm {
			if v.Sign() != 0 {
				out = append(out, fmt.Sprintf("%s %s%s", e.Name(a), signed(v), d))
			}
		}
	}
	for d, v := range mo.Supply {
		if v.Sign() != 0 {
			out = append(out, fmt.Sprintf("supply %s%s", signed(v), d))
		}
	}
	sort.Strings(out)
	return out
}

func signed(v *big.Int) string {
	if v.Sign() >= 0 {
		return "+" + v.String()
	}
	return v.String()
}

// mustRefuseReason: state-dependent reasons the model knows for refusing a canonical payload.
func (s *Sim) mustRefuseReason(in *PktInfo) (prop, reason string) {
	p := in.Payload
	if s.Model.IsPaused(p.Proto, p.Counterparty()) {
		return "C08", "destination-paused"
	}
	if p.HasFee && s.Model.PausedAct["ACTION_FEE"] {
		return "C09", "action-paused"
	}
	if p.Swap != nil && s.Model.PausedAct["ACTION_SWAP"] {
		return "C09", "action-paused"
	}
	if uint64(len(p.Passthrough)) > s.Model.Limit {
		return "C18", "passthrough-over-limit"
	}
	switch in.DenomClass {
	case "sender-native":
		return "C16", "token-native-to-sender"
	case "multi-hop":
		return "C16", "multi-hop-token"
	}
	return "", ""
}

func (s *Sim) onRefused(p *Pkt, in *PktInfo, mo *MsgObs, ack AckInfo) {
	if len(mo.Delta) > 0 || len(mo.Supply) > 0 {
		s.violate("C03", "U2-error-ack-no-effect", "bank-effects-with-error-ack", fmt.Sprintf("packet op=%d: error ack but bank events %v", p.Origin, renderDelta(s.Env, mo)))
	}
	if !in.Canon || !in.KnownGood || p.Byz {
		return
	}
	if s.ModeB != nil && len(s.ModeB.Plan.Fail) > 0 {
		return // a downstream failure was injected into this delivery
	}
	if strings.HasPrefix(p.Class, "refuse:") || strings.HasPrefix(p.Class, "free") {
		return
	}
	if prop, _ := s.mustRefuseReason(in); prop != "" {
		s.Stats.Count("refused-as-modelled:" + prop)
		return
	}
	var fo *FeeOutcome
	if in.Payload.HasFee {
		f := modelFees(in.Amount, in.Payload.Fees)
		if f.Refuse {
			return
		}
		fo = &f
	}
	if in.Payload.Proto == "PROTOCOL_CCTP" && new(big.Int).Sub(in.Amount, feeTotal(fo)).Cmp(s.EnvM.BurnLimit) > 0 {
		return
	}
	if ok, _ := s.envHealthy(in, fo); !ok {
		s.Stats.Count("refused-env-unhealthy")
		return
	}
	if in.RecvEnc == "upper" {
		// a canonical transfer to the upper-case spelling of the orbiter address: refusing it is
		// allowed by C01 (error ack refunds); nothing to assert here.
		return
	}
	s.Stats.Count("rule:must-succeed")
	s.violate("C08", "executed-iff-not-paused", "refused-without-reason route="+in.Payload.Proto, fmt.Sprintf("packet op=%d: canonical transfer on a healthy, unpaused environment was refused: %.300s", p.Origin, ack.Error))
	if len(s.Ledger.Bal[s.Env.Orbiter.String()]) > 0 {
		s.violate("C11", "prior-balance-never-blocks", "known-good-transfer-refused-while-orbiter-holds-coins route="+in.Payload.Proto, fmt.Sprintf("packet op=%d: a canonical transfer on a healthy, unpaused environment was refused while the orbiter account held %v: %.200s", p.Origin, s.Ledger.Bal[s.Env.Orbiter.String()], ack.Error))
	}
}

func feeTotal(fo *FeeOutcome) *big.Int {
	if fo == nil {
		return new(big.Int)
	}
	return fo.Total
}

// igpTag: the message shows an interchain gas payment from the orbiter account to the Hyperlane module
// (decided from the bank flows of the message itself, so it also holds for non-canonical payload spellings).
func (s *Sim) igpTag(mo *MsgObs) string {
	hyp := authtypes.NewModuleAddress("hyperlane").String()
	for _, f := range mo.Flows {
		if f.From == s.Env.Orbiter.String() && f.To == hyp {
			return " cause=hyperlane-igp-fee-charged-to-orbiter-account"
		}
	}
	return ""
}

// igpTagDeltas: the same decision from a shadow variant's ledger deltas.
func (s *Sim) igpTagDeltas(vs ...*variantResult) string {
	hyp := authtypes.NewModuleAddress("hyperlane").String()
	for _, v := range vs {
		if v == nil {
			continue
		}
		for _, l := range v.Deltas {
			if strings.HasPrefix(l, hyp+"/") {
				return " cause=hyperlane-igp-fee-charged-to-orbiter-account"
			}
		}
	}
	return ""
}

func (s *Sim) onAccepted(p *Pkt, in *PktInfo, mo *MsgObs) {
	e := s.Env
	orb, dust := e.Orbiter.String(), e.Dust.String()
	escrow := transfertypes.GetEscrowAddress("transfer", p.DstChan).String()
	p.SuccessDeliveries++
	if p.SuccessDeliveries > 1 {
		s.violate("C05", "exactly-once", "packet-succeeded-twice", fmt.Sprintf("packet op=%d", p.Origin))
	}
	// generator-asserted refusals
	if strings.HasPrefix(p.Class, "refuse:") {
		parts := strings.SplitN(p.Class, ":", 3)
		if len(parts) == 3 {
			s.violate(parts[1], "must-refuse", parts[2], fmt.Sprintf("packet op=%d was accepted: data=%.400s", p.Origin, string(p.Data)))
		}
	}
	// ---- the coin ICS-20 released (read from the ledger, not recomputed)
	var inflows []Flow
	inIdx := -1
	poolAddr := ""
	if s.ModeB != nil {
		poolAddr = e.Pool.Addr.String() // the test swap action's pool pays the orbiter account by design
	}
	for i, f := range mo.Flows {
		if f.To == orb && f.From != orb && f.From != poolAddr {
			inflows = append(inflows, f)
			if inIdx < 0 {
				inIdx = i
			}
		}
	}
	s.Stats.Count("rule:C16.credited-coin")
	if len(inflows) != 1 || inflows[0].From != escrow || len(mo.Mints) > 0 {
		s.violate("C16", "credited-coin", fmt.Sprintf("inflows=%d mints=%d denom-class=%s", len(inflows), len(mo.Mints), in.DenomClass), fmt.Sprintf("packet op=%d accepted but the orbiter account was not credited exactly once from the channel escrow: flows=%v", p.Origin, renderFlows(e, mo.Flows)))
		return
	}
	c := inflows[0]
	pre, post := mo.Flows[:inIdx], mo.Flows[inIdx+1:]
	if in.DenomClass == "sender-native" || in.DenomClass == "multi-hop" {
		s.violate("C16", "only-returning-native", "accepted denom-class="+in.DenomClass, fmt.Sprintf("packet op=%d denom %q", p.Origin, in.D.Denom))
	}
	if in.DenomClass == "one-hop" && c.Denom != in.Native {
		s.violate("C16", "credited-coin", "denom-mismatch", fmt.Sprintf("packet op=%d: packet denom %q but escrow released %s", p.Origin, in.D.Denom, c.Denom))
	}
	if in.AmountOK && c.Amt.Cmp(in.Amount) != 0 {
		s.violate("C16", "credited-coin", "amount-mismatch", fmt.Sprintf("packet op=%d: packet amount %s but escrow released %s", p.Origin, in.Amount, c.Amt))
	}
	prior := s.Ledger.Get(orb, c.Denom).BigInt()
	if prior.Sign() > 0 {
		s.Stats.Probe("dust_in_transfer_denom_at_delivery")
	}
	// ---- C11 direct: before the credit, exactly the prior balance in the transferred denom is swept
	// to the dust collector and nothing else moves
	s.Stats.Count("rule:C11.direct")
	var wantPre []Flow
	if prior.Sign() > 0 {
		wantPre = []Flow{{From: orb, To: dust, Denom: c.Denom, Amt: prior}}
	}
	if !sameFlows(wantPre, pre) {
		s.violate("C11", "prior-balance-to-dust-collector", "sweep-flows", fmt.Sprintf("packet op=%d: prior balance %s%s; expected sweep %v before the credit, observed %v", p.Origin, prior, c.Denom, renderFlows(e, wantPre), renderFlows(e, pre)))
	}
	// ---- C01.R2: the whole coin left; other denoms untouched
	s.Stats.Count("rule:C01.R2")
	post0 := new(big.Int).Add(prior, mo.Net(orb, c.Denom))
	if post0.Sign() != 0 {
		s.violate("C01", "R2-whole-coin-left", "orbiter-balance-after", fmt.Sprintf("packet op=%d: orbiter holds %s%s after a successful transfer (prior %s, delta %s)", p.Origin, post0, c.Denom, prior, mo.Net(orb, c.Denom)))
	}
	for denom, v := range mo.Delta[orb] {
		if denom != c.Denom && v.Sign() != 0 {
			s.violate("C01", "R2-whole-coin-left", "orbiter-other-denom"+s.igpTag(mo), fmt.Sprintf("packet op=%d: orbiter %s changed by %s during a %s transfer", p.Origin, denom, v, c.Denom))
		}
	}
	if in.Payload != nil && in.Canon && in.Payload.Swap != nil {
		s.onAcceptedSwap(p, in, c, post)
		return
	}
	if poolAddr != "" && flowsTouch(post, poolAddr) {
		var po []Flow
		for _, f := range post {
			if f.From == orb {
				po = append(po, f)
			}
		}
		s.noteEscrowGifts(po)
		// a non-canonical spelling of a payload with the test swap action: the single-denomination rules do not apply
		s.statsTainted = true
		s.Stats.Probe("stats_model_tainted_by_noncanonical_success")
		return
	}
	// ---- C02 conservation over the whole ledger
	var outs []Flow // orbiter's outflows after the credit (the sweep happened before it)
	hypMod := authtypes.NewModuleAddress("hyperlane").String()
	for _, f := range post {
		if f.From == orb && f.To == hypMod {
			// an interchain gas payment charged by Hyperlane to the sender of the remote transfer: paid out of
			// whatever the orbiter account holds (never part of the transferred coin, which is forwarded whole)
			s.Stats.Count("rule:C02.bridge-fee-flow")
			s.violate("C02", "conservation", "bridge-fee-paid-by-orbiter-account"+s.igpTag(mo), fmt.Sprintf("packet op=%d: the orbiter account paid %s%s to the Hyperlane module during a %s transfer", p.Origin, f.Amt, f.Denom, c.Denom))
			s.violate("C11", "other-denominations-left-where-they-are", "prior-balance-spent"+s.igpTag(mo), fmt.Sprintf("packet op=%d: %s%s of the orbiter account's prior balance was spent during a %s transfer", p.Origin, f.Amt, f.Denom, c.Denom))
			continue
		}
		if f.From == orb {
			outs = append(outs, f)
		}
	}
	s.Stats.Count("rule:C02")
	sum := new(big.Int)
	for _, f := range outs {
		if f.Denom != c.Denom {
			s.violate("C02", "conservation", "foreign-denom-outflow"+s.igpTag(mo), fmt.Sprintf("packet op=%d: orbiter paid %s%s during a %s transfer", p.Origin, f.Amt, f.Denom, c.Denom))
		}
		sum.Add(sum, f.Amt)
	}
	s.Stats.Count("rule:C03.success-complete-in-history")
	if len(outs) == 0 {
		s.violate("C02", "conservation", "nothing-forwarded", fmt.Sprintf("packet op=%d: success but no outflow from the orbiter account", p.Origin))
		s.violate("C03", "success-only-after-all-movements", "success-ack-without-forwarding", fmt.Sprintf("packet op=%d: success acknowledgement although nothing left the orbiter account", p.Origin))
		return
	}
	if sum.Cmp(c.Amt) < 0 {
		s.violate("C03", "success-only-after-all-movements", "success-ack-with-funds-left-behind", fmt.Sprintf("packet op=%d: success acknowledgement although only %s of the %s%s received left the orbiter account", p.Origin, sum, c.Amt, c.Denom))
	}
	// C16: the coin the orbiter acts on (fees + forwarded) is exactly the coin ICS-20 credited
	s.Stats.Count("rule:C16.acted-on-coin")
	if sum.Cmp(c.Amt) != 0 {
		s.violate("C16", "acted-on-coin-is-credited-coin", "acted-on-amount-differs", fmt.Sprintf("packet op=%d: ICS-20 credited %s%s, fees plus forwarded amount to %s", p.Origin, c.Amt, c.Denom, sum))
	}
	if sum.Cmp(c.Amt) != 0 {
		s.violate("C02", "conservation", "fees-plus-out-ne-received", fmt.Sprintf("packet op=%d: received %s, paid out %s (%v)", p.Origin, c.Amt, sum, renderFlows(e, outs)))
	}
	s.noteEscrowGifts(outs)
	sink := outs[len(outs)-1]
	out := sink.Amt
	feeFlows := outs[:len(outs)-1]
	// debits: only the escrow and the orbiter account (and pass-through module accounts, net zero)
	for a, dm := range mo.Delta {
		for d, v := range dm {
			if v.Sign() < 0 && a != escrow && a != orb {
				s.violate("C02", "conservation", "third-party-debited", fmt.Sprintf("packet op=%d: %s lost %s%s", p.Origin, e.Name(a), v, d))
			}
		}
	}
	if mo.Net(escrow, c.Denom).Cmp(new(big.Int).Neg(c.Amt)) != 0 && !flowsTouch(outs, escrow) {
		s.violate("C02", "conservation", "escrow-delta", fmt.Sprintf("packet op=%d: escrow changed by %s, expected -%s", p.Origin, mo.Net(escrow, c.Denom), c.Amt))
	}
	// supply: only the CCTP burn
	routeProto := ""
	if in.Payload != nil {
		routeProto = in.Payload.Proto
	}
	isBurnRoute := sink.To == e.CCTPMod.String()
	for d, v := range mo.Supply {
		want := new(big.Int)
		if isBurnRoute && d == c.Denom {
			want.Neg(out)
		}
		if v.Cmp(want) != 0 {
			s.violate("C02", "conservation", "supply-delta", fmt.Sprintf("packet op=%d: supply of %s changed by %s, expected %s", p.Origin, d, v, want))
		}
	}
	if isBurnRoute {
		if mo.Supply[c.Denom] == nil || mo.Supply[c.Denom].Cmp(new(big.Int).Neg(out)) != 0 {
			s.violate("C02", "conservation", "supply-delta", fmt.Sprintf("packet op=%d: CCTP route but supply of %s changed by %v, expected -%s", p.Origin, c.Denom, mo.Supply[c.Denom], out))
		}
		if mo.Net(e.CCTPMod.String(), c.Denom).Sign() != 0 {
			s.violate("C02", "conservation", "cctp-module-kept-funds", fmt.Sprintf("packet op=%d", p.Origin))
		}
	}
	if out.Sign() <= 0 {
		s.violate("C02", "conservation", "non-positive-out", fmt.Sprintf("packet op=%d", p.Origin))
	}
	// accounts whose balance changed: escrow, orbiter, dust collector, fee recipients, sink
	allowed := map[string]bool{escrow: true, orb: true, dust: true, sink.To: true, hypMod: true}
	for _, f := range feeFlows {
		allowed[f.To] = true
	}
	for a, dm := range mo.Delta {
		for d, v := range dm {
			if v.Sign() != 0 && !allowed[a] {
				s.violate("C02", "conservation", "unrelated-account-changed", fmt.Sprintf("packet op=%d: %s changed by %s%s", p.Origin, e.Name(a), v, d))
			}
		}
	}

	// ---- statistics fold (C12) uses what the ledger shows was received and forwarded
	if in.Payload != nil && in.Canon {
		s.Model.AddStat(p.DstChan, protoNum(in.Payload.Proto), in.Payload.Counterparty(), c.Denom, c.Amt, out)
		s.Model.AddCount(p.DstChan, protoNum(in.Payload.Proto), in.Payload.Counterparty())
	} else {
		s.statsTainted = true
		s.Stats.Probe("stats_model_tainted_by_noncanonical_success")
	}

	if in.Payload == nil || !in.Canon {
		s.Stats.Count("accepted-noncanonical")
		s.logf("accepted non-canonical memo (class %s): %s", p.Class, in.D.Memo)
		return
	}
	pl := in.Payload
	// ---- state-dependent enforcement (C08, C09, C18, C16)
	s.Stats.Count("rule:enforcement")
	if prop, reason := s.mustRefuseReason(in); prop != "" {
		s.violate(prop, "enforcement", "accepted-while-"+reason, fmt.Sprintf("packet op=%d route=%s cp=%s passthrough=%d limit=%d", p.Origin, pl.Proto, pl.Counterparty(), len(pl.Passthrough), s.Model.Limit))
	}
	// ---- C04: exact fees on the incoming amount
	if in.AmountOK {
		s.Stats.Count("rule:C04")
		fo := FeeOutcome{Total: new(big.Int)}
		if pl.HasFee {
			fo = modelFees(in.Amount, pl.Fees)
		}
		if fo.Refuse {
			s.violate("C04", "must-refuse", fo.Reason, fmt.Sprintf("packet op=%d accepted although the fee action must be refused (%s): A=%s fees=%s", p.Origin, fo.Reason, in.Amount, renderFees(pl.Fees)))
		} else {
			var want []Flow
			for i, f := range pl.Fees {
				if fo.Credits[i].Sign() > 0 {
					a, _ := validNobleAddr(f.Recipient)
					want = append(want, Flow{From: orb, To: addrStr(a), Denom: c.Denom, Amt: fo.Credits[i]})
				} else {
					s.Stats.Probe("fee_rounded_to_zero")
				}
			}
			if new(big.Int).Add(fo.Total, big.NewInt(1)).Cmp(in.Amount) == 0 {
				s.Stats.Probe("fees_equal_amount_minus_one")
			}
			if !sameFlows(want, feeFlows) {
				s.violate("C04", "exact-fee-credits", "credits-differ", fmt.Sprintf("packet op=%d A=%s fees=%s: expected credits %v, observed %v", p.Origin, in.Amount, renderFees(pl.Fees), renderFlows(e, want), renderFlows(e, feeFlows)))
			}
			wantOut := new(big.Int).Sub(in.Amount, fo.Total)
			if out.Cmp(wantOut) != 0 {
				s.violate("C04", "forwarded-amount", "forwarded-ne-amount-minus-fees", fmt.Sprintf("packet op=%d A=%s fees=%s: forwarded %s, expected %s", p.Origin, in.Amount, renderFees(pl.Fees), out, wantOut))
			}
		}
	}
	// ---- C05 (mode A): route and parameters as visible in the real modules' events
	s.checkRouteEvents(p, in, mo, c, sink, out)
	_ = routeProto
}

func flowsTouch(fs []Flow, addr string) bool {
	for _, f := range fs {
		if f.To == addr || f.From == addr {
			return true
		}
	}
	return false
}

func sameFlows(a, b []Flow) bool {
	if len(a) != len(b) {
		return false
	}
	for i := range a {
		if a[i].From != b[i].From || a[i].To != b[i].To || a[i].Denom != b[i].Denom || a[i].Amt.Cmp(b[i].Amt) != 0 {
			return false
		}
	}
	return true
}

func renderFlows(e *Env, fs []Flow) []string {
	var out []string
	for _, f := range fs {
		out = append(out, fmt.Sprintf("%s->%s %s%s", e.Name(f.From), e.Name(f.To), f.Amt, f.Denom))
	}
	return out
}

func renderFees(fs []MFee) string {
	var out []string
	for _, f := range fs {
		if f.IsBPS {
			out = append(out, fmt.Sprintf("%dbps", f.BPS))
		} else {
			out = append(out, "fix"+f.Amount.String())
		}
	}
	return "[" + strings.Join(out, ",") + "]"
}

func unq(s string) string {
	var x string
	if json.Unmarshal([]byte(s), &x) == nil {
		return x
	}
	return s
}

func unb64(s string) []byte {
	s = unq(s)
	if s == "" || s == "null" {
		return nil
	}
	b, err := base64.StdEncoding.DecodeString(s)
	if err != nil {
		return []byte("!" + s)
	}
	return b
}

// checkRouteEvents: exactly one outgoing bridge message, on the route named by the
// protocol identifier, carrying the payload's parameters (as far as the real modules
// expose them in events).
func (s *Sim) checkRouteEvents(p *Pkt, in *PktInfo, mo *MsgObs, c Flow, sink Flow, out *big.Int) {
	e := s.Env
	pl := in.Payload
	s.Stats.Count("rule:C05.events")
	dfb := mo.find("circle.cctp.v1.DepositForBurn")
	hyp := mo.find("hyperlane.warp.v1.EventSendRemoteTransfer")
	bad := func(fp, f string, a ...any) {
		s.violate("C05", "route-and-parameters", fp, fmt.Sprintf("packet op=%d route=%s: ", p.Origin, pl.Proto)+fmt.Sprintf(f, a...))
	}
	p.OutMsgs += len(dfb) + len(hyp)
	switch pl.Proto {
	case "PROTOCOL_CCTP":
		if len(dfb) != 1 || len(hyp) != 0 {
			bad("wrong-bridge", "expected exactly one CCTP DepositForBurn, saw cctp=%d hyperlane=%d", len(dfb), len(hyp))
			return
		}
		a := dfb[0]
		if unq(a["amount"]) != out.String() {
			bad("cctp-amount", "DepositForBurn amount %s, forwarded %s", a["amount"], out)
		}
		if unq(a["depositor"]) != e.Orbiter.String() {
			bad("cctp-depositor", "depositor %s", a["depositor"])
		}
		if d, _ := strconv.ParseUint(unq(a["destination_domain"]), 10, 32); uint32(d) != pl.Domain {
			bad("cctp-domain", "domain %s, payload %d", a["destination_domain"], pl.Domain)
		}
		if !bytesEq(unb64(a["mint_recipient"]), pl.MintRecipient) {
			bad("cctp-mint-recipient", "mint recipient %s, payload %x", a["mint_recipient"], pl.MintRecipient)
		}
		if !bytesEq(unb64(a["destination_caller"]), pl.DestCaller) {
			bad("cctp-destination-caller", "destination caller %s, payload %x", a["destination_caller"], pl.DestCaller)
		}
		if sink.To != e.CCTPMod.String() {
			bad("cctp-sink", "funds went to %s", e.Name(sink.To))
		}
		_ = hex.EncodeToString
	case "PROTOCOL_HYPERLANE":
		if len(hyp) != 1 || len(dfb) != 0 {
			bad("wrong-bridge", "expected exactly one warp remote transfer, saw cctp=%d hyperlane=%d", len(dfb), len(hyp))
			return
		}
		a := hyp[0]
		if unq(a["amount"]) != out.String()+c.Denom {
			bad("hyp-amount", "remote transfer amount %s, forwarded %s", a["amount"], out)
		}
		if unq(a["sender"]) != e.Orbiter.String() {
			bad("hyp-sender", "sender %s", a["sender"])
		}
		if d, _ := strconv.ParseUint(unq(a["destination_domain"]), 10, 32); uint32(d) != pl.Domain {
			bad("hyp-domain", "domain %s, payload %d", a["destination_domain"], pl.Domain)
		}
		if strings.ToLower(unq(a["recipient"])) != "0x"+hex.EncodeToString(pl.Recipient32) {
			bad("hyp-recipient", "recipient %s, payload %x", a["recipient"], pl.Recipient32)
		}
		if strings.ToLower(unq(a["token_id"])) != "0x"+hex.EncodeToString(pl.Token) {
			bad("hyp-token", "token %s, payload %x", a["token_id"], pl.Token)
		}
		if sink.To != e.WarpMod.String() {
			bad("hyp-sink", "funds went to %s", e.Name(sink.To))
		}
	case "PROTOCOL_INTERNAL":
		if len(dfb) != 0 || len(hyp) != 0 {
			bad("wrong-bridge", "internal route but saw cctp=%d hyperlane=%d", len(dfb), len(hyp))
		}
		a, _ := validNobleAddr(pl.Recipient)
		if sink.To != addrStr(a) {
			bad("internal-recipient", "funds went to %s, payload recipient %s", e.Name(sink.To), pl.Recipient)
		}
	}
}

// checkRefund: when an acknowledgement is relayed back, an error ack refunds the sender
// (C03: "funds are refunded on the source chain"), a success ack moves nothing.
func (s *Sim) checkRefund(p *Pkt, mo *MsgObs) {
	in := s.classify(p)
	if !in.ICS || !in.ToOrbiter {
		return
	}
	ack := decodeAck(p.Ack)
	a, ok := validNobleAddr(in.D.Sender)
	if !ok {
		return
	}
	s.Stats.Count("rule:C03.refund")
	sender := addrStr(a)
	net := new(big.Int)
	for _, v := range mo.Delta[sender] {
		net.Add(net, v)
	}
	if ack.Success && net.Sign() != 0 {
		s.violate("C03", "refund", "success-ack-moved-funds-on-source", fmt.Sprintf("packet op=%d", p.Origin))
	}
	if !ack.Success && in.AmountOK && net.Cmp(in.Amount) != 0 && !p.Byz {
		s.violate("C03", "refund", "error-ack-not-refunded", fmt.Sprintf("packet op=%d: sender got %s, expected %s", p.Origin, net, in.Amount))
	}
}

// recordState: abstract state digest at a delivery instant (reach measure).
func (s *Sim) recordState(in *PktInfo) {
	lim := "0"
	switch {
	case s.Model.Limit == 0:
	case s.Model.Limit < 64:
		lim = "s"
	case s.Model.Limit < 4096:
		lim = "m"
	default:
		lim = "l"
	}
	dustPresent := len(s.Ledger.Bal[s.Env.Orbiter.String()]) > 0
	route := "-"
	if in.Payload != nil {
		route = in.Payload.Proto
	}
	nst := len(s.Model.In)
	if nst > 6 {
		nst = 6
	}
	d := fmt.Sprintf("%v|%s|%d|%v|%v%v%v|%d%d|%s|%s", s.Model.RenderPause(), lim, nst, dustPresent, s.EnvM.FTFPaused, s.EnvM.CCTPPaused, s.EnvM.CCTPMsgStop, len(s.EnvM.Blacklist), len(s.EnvM.Messenger), route, in.RecvEnc)
	s.Stats.States[d] = true
}

// ---------------- admin messages and the model ----------------

var validProto = map[string]bool{"PROTOCOL_IBC": true, "PROTOCOL_CCTP": true, "PROTOCOL_HYPERLANE": true, "PROTOCOL_INTERNAL": true}
var reChan = regexp.MustCompile(`^channel-[0-9]{1,20}$`)

func canonDomain(sid string) bool {
	if !decRe(sid) {
		return false
	}
	v, err := strconv.ParseUint(sid, 10, 64)
	return err == nil && v <= 0xffffffff
}

// idClass: "valid" / "invalid" / "unclear" for a counterparty id under a protocol, as far as the
// model is willing to say without mirroring the implementation.
func idClass(proto, id string) string {
	if id == "" || len(id) > 32 {
		return "invalid"
	}
	switch proto {
	case "PROTOCOL_IBC":
		if reChan.MatchString(id) {
			return "valid"
		}
		return "unclear"
	case "PROTOCOL_CCTP", "PROTOCOL_HYPERLANE":
		if canonDomain(id) {
			return "valid"
		}
		for _, c := range id {
			if (c < '0' || c > '9') && c != '+' && c != '-' && c != '_' && c != 'x' && c != 'X' {
				return "invalid" // clearly not a number in any spelling
			}
		}
		return "unclear"
	case "PROTOCOL_INTERNAL":
		return "valid"
	}
	return "invalid"
}

// adminResult: compare the outcome of an orbiter admin tx with what the model predicts
// (only where the model is willing to predict) and update the model.
func (s *Sim) adminResult(m *txMeta, ok bool, obs *TxObs) {
	op := m.Op
	md := s.Model
	if op.Fail {
		if ok {
			panic(harnessErr("admin tx of op %d was built to fail but succeeded", op.ID))
		}
		return // rolled back as a whole: the model does not move
	}
	rightSigner := op.Signer == "" && op.SigStr == ""
	predict := func(want bool, prop, why string) {
		s.Stats.Count("rule:" + prop + ".msg-semantics")
		if want != ok {
			s.violate(prop, "message-semantics", fmt.Sprintf("%s expected-success=%v %s", op.Msg, want, why), fmt.Sprintf("op=%d %s proto=%s ids=%v act=%s: tx success=%v, model expected %v (%s); log=%.200s", op.ID, op.Msg, op.Proto, op.Ids, op.Act, ok, want, why, oneLine(obs.Log)))
		}
	}
	if !rightSigner {
		// impostor traffic is judged by C10
		s.Stats.Count("rule:C10.real-tx")
		if ok {
			s.violate("C10", "only-authority", "unauthorised "+op.Msg+" succeeded", fmt.Sprintf("op=%d signer=%s sigstr=%q", op.ID, op.Signer, op.SigStr))
		}
		if !ok {
			return
		}
	}
	switch op.Msg {
	case "PauseProtocol", "UnpauseProtocol":
		pause := op.Msg == "PauseProtocol"
		if rightSigner {
			switch {
			case !validProto[op.Proto]:
				predict(false, "C08", "invalid protocol")
			case md.PausedProto[op.Proto] == pause:
				predict(false, "C08", "redundant")
				s.Stats.Probe("redundant_pause_message")
			default:
				predict(true, "C08", "valid")
			}
		}
		if ok {
			md.PausedProto[op.Proto] = pause
			if !pause {
				delete(md.PausedProto, op.Proto)
			}
			s.pauseLanded()
		}
	case "PauseCrossChains", "UnpauseCrossChains":
		pause := op.Msg == "PauseCrossChains"
		if rightSigner && len(op.Ids) > 0 {
			want, clear, why := true, true, "valid"
			seen := map[string]bool{}
			if !validProto[op.Proto] {
				want, why = false, "invalid protocol"
			} else if len(op.Ids) > 100 {
				want, why = false, "more than 100 ids"
			} else {
				for _, id := range op.Ids {
					switch idClass(op.Proto, id) {
					case "invalid":
						want, why = false, "invalid id"
					case "unclear":
						clear = false
					}
					if seen[id] {
						want, why = false, "duplicate in batch"
					}
					seen[id] = true
					if md.PausedCC[op.Proto+"|"+id] == pause {
						want, why = false, "redundant element"
					}
				}
			}
			if clear || !want {
				predict(want, "C08", why)
				if !want && len(op.Ids) > 1 {
					s.Stats.Probe("batch_with_bad_element")
				}
			}
		}
		if ok {
			for _, id := range op.Ids {
				if pause {
					md.PausedCC[op.Proto+"|"+id] = true
				} else {
					delete(md.PausedCC, op.Proto+"|"+id)
				}
			}
			if len(op.Ids) == 0 {
				// an empty batch is outside the generated space; follow what the chain reports at the next export
				s.resyncPause = true
			}
			s.pauseLanded()
		}
	case "PauseAction", "UnpauseAction":
		pause := op.Msg == "PauseAction"
		if rightSigner {
			switch {
			case op.Act != "ACTION_FEE" && op.Act != "ACTION_SWAP":
				predict(false, "C09", "invalid action")
			case md.PausedAct[op.Act] == pause:
				predict(false, "C09", "redundant")
				s.Stats.Probe("redundant_pause_message")
			default:
				predict(true, "C09", "valid")
			}
		}
		if ok {
			if pause {
				md.PausedAct[op.Act] = true
			} else {
				delete(md.PausedAct, op.Act)
			}
			s.pauseLanded()
		}
	case "UpdateParams":
		if rightSigner {
			predict(true, "C18", "any 32-bit value")
		}
		if ok {
			md.Limit = uint64(uint32(op.N))
			if s.inflightCount() > 0 {
				s.Stats.Fault("param_change_in_flight")
			}
		}
	}
}

func (s *Sim) pauseLanded() {
	if s.inflightCount() > 0 {
		s.Stats.Fault("pause_lands_in_flight")
	}
}

func (s *Sim) envResult(m *txMeta) {
	op := m.Op
	e := s.EnvM
	if op.K == "hyptoken" {
		s.Stats.Count("hyperlane_tokens_created_in_run")
		return
	}
	switch op.Msg {
	case "FTFPause":
		e.FTFPaused = true
		s.Stats.Fault("ftf_paused")
	case "FTFUnpause":
		e.FTFPaused = false
	case "Blacklist":
		e.Blacklist[s.targetAddr(op.Target)] = true
		s.Stats.Fault("blacklist:" + roleOf(op.Target))
	case "Unblacklist":
		delete(e.Blacklist, s.targetAddr(op.Target))
	case "CCTPPause":
		e.CCTPPaused = true
		s.Stats.Fault("cctp_paused")
	case "CCTPUnpause":
		e.CCTPPaused = false
	case "CCTPMsgPause":
		e.CCTPMsgStop = true
		s.Stats.Fault("cctp_msg_paused")
	case "CCTPMsgUnpause":
		e.CCTPMsgStop = false
	case "BurnLimit":
		e.BurnLimit = new(big.Int).SetUint64(op.N)
		s.Stats.Fault("burn_limit_changed")
	case "RemoveMessenger":
		delete(e.Messenger, op.Dom)
		s.Stats.Fault("messenger_missing")
	case "AddMessenger":
		e.Messenger[op.Dom] = true
	case "UnrollRouter":
		if e.Router[op.Denom] != nil {
			delete(e.Router[op.Denom], op.Dom)
		}
		s.Stats.Fault("router_unenrolled")
	case "EnrollRouter":
		if e.Router[op.Denom] != nil {
			e.Router[op.Denom][op.Dom] = true
		}
	}
}

func roleOf(target string) string {
	switch {
	case strings.HasPrefix(target, "fee"):
		return "fee_recipient"
	case strings.HasPrefix(target, "rcpt"):
		return "recipient"
	case strings.HasPrefix(target, "remote"):
		return "sender"
	}
	return strings.ToLower(target)
}

// ---------------- after every block: exported state == model ----------------

func (s *Sim) exportRender() (stats []string, pause []string, limit uint64) {
	g := s.N.App.OrbiterKeeper.ExportGenesis(s.N.Ctx())
	for _, a := range g.DispatcherGenesis.DispatchedAmounts {
		stats = append(stats, fmt.Sprintf("amt %d:%s -> %d:%s %s in=%s out=%s", int(a.SourceId.ProtocolId), a.SourceId.CounterpartyId, int(a.DestinationId.ProtocolId), a.DestinationId.CounterpartyId, a.Denom, a.AmountDispatched.Incoming, a.AmountDispatched.Outgoing))
	}
	for _, c := range g.DispatcherGenesis.DispatchedCounts {
		stats = append(stats, fmt.Sprintf("cnt %d:%s -> %d:%s n=%d", int(c.SourceId.ProtocolId), c.SourceId.CounterpartyId, int(c.DestinationId.ProtocolId), c.DestinationId.CounterpartyId, c.Count))
	}
	sort.Strings(stats)
	for _, p := range g.ForwarderGenesis.PausedProtocolIds {
		pause = append(pause, "proto "+p.String())
	}
	for _, c := range g.ForwarderGenesis.PausedCrossChainIds {
		pause = append(pause, "cc "+c.ProtocolId.String()+"|"+c.CounterpartyId)
	}
	for _, a := range g.ExecutorGenesis.PausedActionIds {
		pause = append(pause, "act "+a.String())
	}
	sort.Strings(pause)
	return stats, pause, uint64(g.AdapterGenesis.Params.MaxPassthroughPayloadSize)
}

func (s *Sim) afterBlock() {
	stats, pause, limit := s.exportRender()
	if s.resyncPause {
		s.resyncFromExport(pause)
		s.resyncPause = false
	}
	if s.ModeB != nil && s.ModeB.Plan.Store && len(s.ModeB.Plan.Fired) > 0 && !s.statsTainted {
		// an injected failure of the orbiter's own store fired in this block: when it hit a statistics write after
		// the bridge request the transfer stands and its statistics may be lost (sim.go, storeFaultPass)
		f := s.ModeB.Plan.Fired[0]
		for _, c := range s.ModeB.Plan.Calls[:f] {
			if isBridgeSite(c.Site) && strings.HasPrefix(s.ModeB.Plan.Calls[f].Site, "store.") {
				s.statsTainted = true
				s.Stats.Probe("statistics_write_failed_in_history")
				break
			}
		}
	}
	if s.Model.Unrepresentable && !s.statsTainted {
		s.statsTainted = true
		s.Stats.Probe("statistics_total_beyond_256_bits")
	}
	if !s.statsTainted {
		s.Stats.Count("rule:C12.fold")
		want := s.Model.RenderStats()
		if strings.Join(want, "\n") != strings.Join(stats, "\n") {
			s.violate("C12", "stats-equal-fold", "export-differs-from-fold", fmt.Sprintf("after block %d:\n  chain: %v\n  model: %v", s.N.Height, stats, want))
			// C16 says the same of what is *recorded*: exactly the coins ICS-20 credited (the fold is made of those)
			s.Stats.Count("rule:C16.recorded-coin")
			s.violate("C16", "recorded-coin-is-credited-coin", "statistics-differ-from-the-credited-coins", fmt.Sprintf("after block %d: %s", s.N.Height, firstDiff(stats, want)))
			s.statsTainted = true // report once per run
		}
	}
	wantP := s.Model.RenderPause()
	if strings.Join(wantP, "\n") != strings.Join(pause, "\n") {
		prop := "C08"
		for _, l := range append(append([]string{}, wantP...), pause...) {
			if strings.HasPrefix(l, "act ") && !contains(wantP, l) != !contains(pause, l) {
				prop = "C09"
			}
		}
		s.violate(prop, "pause-sets-equal-model", "export-differs-from-model", fmt.Sprintf("after block %d: chain %v, model %v", s.N.Height, pause, wantP))
		s.resyncFromExport(pause)
	}
	if limit != s.Model.Limit {
		s.violate("C18", "limit-in-force", "export-differs-from-model", fmt.Sprintf("after block %d: chain %d, model %d", s.N.Height, limit, s.Model.Limit))
		s.Model.Limit = limit
	}
	for _, h := range s.afterBlockHooks {
		h(s)
	}
}

func contains(xs []string, x string) bool {
	for _, y := range xs {
		if y == x {
			return true
		}
	}
	return false
}

func (s *Sim) resyncFromExport(pause []string) {
	s.Model.PausedProto, s.Model.PausedCC, s.Model.PausedAct = map[string]bool{}, map[string]bool{}, map[string]bool{}
	for _, l := range pause {
		switch {
		case strings.HasPrefix(l, "proto "):
			s.Model.PausedProto[l[6:]] = true
		case strings.HasPrefix(l, "cc "):
			s.Model.PausedCC[l[3:]] = true
		case strings.HasPrefix(l, "act "):
			s.Model.PausedAct[l[4:]] = true
		}
	}
}

// endOfRun: whole-history checks.
func (s *Sim) endOfRun() {
	ar := NewRng(uint64(s.N.Height)*7919 + uint64(len(s.Packets)))
	if hasAudit(s.Prof, "queries") {
		s.auditQueries(ar)
	}
	if hasAudit(s.Prof, "pausequeries") {
		s.auditPauseQueries(ar)
	}
	if hasAudit(s.Prof, "genesis") {
		s.auditGenesis(ar, true)
	}
	if hasAudit(s.Prof, "impostor") {
		s.auditImpostor(ar)
	}
	if hasAudit(s.Prof, "ids") {
		s.auditIDs(ar)
	}
	if (hasAudit(s.Prof, "queries") || hasAudit(s.Prof, "pausequeries") || s.Prof.Name == "C12") && uint64(s.N.Height)%3 == 0 && len(s.Viol) == 0 {
		s.auditAfterGenesisRestart(ar)
	}
	// exactly one outgoing bridge message per successful CCTP/Hyperlane packet
	for _, p := range s.sortedPackets() {
		in := s.classify(p)
		if !in.ToOrbiter || !in.Canon {
			continue
		}
		s.Stats.Count("rule:C05.exactly-once")
		want := 0
		if p.SuccessDeliveries > 0 && in.Payload.Proto != "PROTOCOL_INTERNAL" {
			want = 1
		}
		if p.OutMsgs != want {
			s.violate("C05", "exactly-once", "outgoing-message-count", fmt.Sprintf("packet op=%d: %d successful deliveries, %d outgoing bridge messages", p.Origin, p.SuccessDeliveries, p.OutMsgs))
		}
	}
	// harness sanity: vouchers on each B end are backed by the escrow on the A end
	// (skipped once the run has recorded a violation: the ledger is then known to be off)
	if len(s.Viol) > 0 {
		return
	}
	l := s.Ledger
	for pr := 0; pr < NumPairs; pr++ {
		for _, d := range []string{DenomUSDC, DenomOther, DenomHuge} {
			v := voucherOnB(pr, d)
			sup := sdkmath.ZeroInt()
			if x, ok := l.Supply[v]; ok {
				sup = x
			}
			esc := l.Get(escrowA(pr).String(), d)
			inflight := sdkmath.ZeroInt()
			for _, p := range s.Packets {
				if p.Byz {
					continue
				}
				pending := p.State == PktInFlight || (p.State == PktReceived && !decodeAck(p.Ack).Success)
				if !pending {
					continue
				}
				dd, ok := parseICS20(p.Data)
				if !ok {
					continue
				}
				a, ok := sdkmath.NewIntFromString(dd.Amount)
				if !ok {
					continue
				}
				// B->A: voucher already burnt, escrow not yet released; A->B: escrowed, voucher not yet minted
				if (p.SrcChan == chanB(pr) && dd.Denom == "transfer/"+chanB(pr)+"/"+d) || (p.SrcChan == chanA(pr) && dd.Denom == d) {
					inflight = inflight.Add(a)
				}
			}
			if g := s.escrowGifts[escrowA(pr).String()+"/"+d]; g != nil {
				inflight = inflight.Add(newSdkInt(g))
			}
			if !esc.Equal(sup.Add(inflight)) && !s.hasByz() {
				panic(harnessErr("pair %d denom %s: escrow %s != voucher supply %s + in flight %s", pr, d, esc, sup, inflight))
			}
		}
	}
}

func (s *Sim) hasByz() bool {
	for _, p := range s.Packets {
		if p.Byz {
			return true
		}
	}
	return false
}

// onAcceptedSwap: a transfer whose payload contains the denomination-changing test action (mode B).
// Order of actions on the running coin (C06) and the two-entry statistics fold (C12).
func (s *Sim) onAcceptedSwap(p *Pkt, in *PktInfo, c Flow, post []Flow) {
	e := s.Env
	orb := e.Orbiter.String()
	pool := e.Pool.Addr.String()
	pl := in.Payload
	s.Stats.Count("rule:C06.order-in-history")
	if !in.AmountOK {
		s.statsTainted = true
		return
	}
	if prop, reason := s.mustRefuseReason(in); prop != "" {
		s.violate(prop, "enforcement", "accepted-while-"+reason, fmt.Sprintf("packet op=%d (swap payload)", p.Origin))
	}
	ok, fDenom, fAmt, wantSends := modelFold(in.Amount, c.Denom, pl.actions())
	if !ok {
		s.violate("C06", "order-on-running-amount", "accepted-though-an-action-must-refuse", fmt.Sprintf("packet op=%d", p.Origin))
		s.statsTainted = true
		return
	}
	var outs []Flow
	hypMod := authtypes.NewModuleAddress("hyperlane").String()
	for _, f := range post {
		if f.From == orb && f.To == hypMod {
			// interchain gas payment charged to the orbiter account (known finding, reported by C02/C11)
			s.violate("C02", "conservation", "bridge-fee-paid-by-orbiter-account cause=hyperlane-igp-fee-charged-to-orbiter-account", fmt.Sprintf("packet op=%d: the orbiter account paid %s%s to the Hyperlane module", p.Origin, f.Amt, f.Denom))
			continue
		}
		if f.From == orb && f.To != pool {
			outs = append(outs, f)
		}
	}
	if len(outs) == 0 {
		s.violate("C06", "final-coin-forwarded", "nothing-forwarded", fmt.Sprintf("packet op=%d", p.Origin))
		s.statsTainted = true
		return
	}
	s.noteEscrowGifts(outs)
	sink := outs[len(outs)-1]
	var gotSends []string
	for _, f := range outs[:len(outs)-1] {
		gotSends = append(gotSends, fmt.Sprintf("%s %s%s", f.To, f.Amt, f.Denom))
	}
	if !sameStrs(gotSends, wantSends) {
		s.violate("C06", "order-on-running-amount", "per-action-credits-differ", fmt.Sprintf("packet op=%d: fee sends %v, expected %v", p.Origin, gotSends, wantSends))
	}
	if sink.Amt.Cmp(fAmt) != 0 || sink.Denom != fDenom {
		s.violate("C06", "final-coin-forwarded", "forwarded-coin-differs", fmt.Sprintf("packet op=%d: forwarded %s%s, the last action left %s%s", p.Origin, sink.Amt, sink.Denom, fAmt, fDenom))
	}
	// statistics: one entry when the denomination is unchanged, two otherwise
	pn, cp := protoNum(pl.Proto), pl.Counterparty()
	if fDenom == c.Denom {
		s.Model.AddStat(p.DstChan, pn, cp, c.Denom, c.Amt, fAmt)
	} else {
		s.Model.AddStat(p.DstChan, pn, cp, c.Denom, c.Amt, new(big.Int))
		s.Model.AddStat(p.DstChan, pn, cp, fDenom, new(big.Int), fAmt)
		s.Stats.Probe("two_statistics_entries_per_transfer")
	}
	s.Model.AddCount(p.DstChan, pn, cp)
	if pl.Proto != "PROTOCOL_INTERNAL" {
		p.OutMsgs++ // counted from the ledger sink here; the typed-event comparison is C05's business
	}
}

// noteEscrowGifts: fees paid to a channel escrow address raise its balance without vouchers (harness bookkeeping
// for the end-of-run escrow = vouchers sanity check).
func (s *Sim) noteEscrowGifts(outs []Flow) {
	for _, f := range outs {
		if strings.HasPrefix(s.Env.Name(f.To), "escrow") {
			if s.escrowGifts == nil {
				s.escrowGifts = map[string]*big.Int{}
			}
			k := f.To + "/" + f.Denom
			if s.escrowGifts[k] == nil {
				s.escrowGifts[k] = new(big.Int)
			}
			s.escrowGifts[k].Add(s.escrowGifts[k], f.Amt)
		}
	}
}
