package main

// C19: processing is deterministic. Every run of this check is executed twice in-process
// (generation, then replay of the recorded trace on a second application instance) and a
// sample is executed again in separate OS processes under other GOMAXPROCS values (fresh
// runtime hash seeds); compared per block: AppHash (covers the acknowledgement commitments,
// i.e. the hash of the committed error text), every tx result (code, codespace, gas), the
// full event list in order (which includes the acknowledgement bytes), and at the end the
// exported orbiter genesis and all bank balances.

import (
	"crypto/sha256"
	"encoding/hex"
	"encoding/json"
	"fmt"
	"os"
	"os/exec"
	"path/filepath"
	"strings"
)

// finalDigest summarises the end state of a run.
func (s *Sim) finalDigest() string {
	ctx := s.N.Ctx()
	g := s.N.App.OrbiterKeeper.ExportGenesis(ctx)
	h := sha256.New()
	h.Write([]byte(genJSON(g)))
	l := s.N.LedgerAt(ctx)
	for _, ln := range (&Ledger{Bal: map[string]map[string]sdkInt{}, Supply: map[string]sdkInt{}}).Diff(l) {
		h.Write([]byte(ln))
	}
	return hex.EncodeToString(h.Sum(nil))[:24]
}

func hashLogDigest(hl []string, final string) string {
	h := sha256.New()
	for _, l := range hl {
		h.Write([]byte(l))
		h.Write([]byte{'\n'})
	}
	h.Write([]byte(final))
	return hex.EncodeToString(h.Sum(nil))[:32]
}

// firstDivergence describes where two per-block logs part.
func firstDivergence(a, b []string) (block int, what string) {
	n := len(a)
	if len(b) < n {
		n = len(b)
	}
	for i := 0; i < n; i++ {
		if a[i] != b[i] {
			fa, fb := strings.Fields(a[i]), strings.Fields(b[i])
			what = "tx-results-or-events"
			if len(fa) > 1 && len(fb) > 1 && fa[1] != fb[1] {
				what = "app-hash"
			}
			if len(fa) == len(fb) {
				for k := 2; k < len(fa); k++ {
					if fa[k] != fb[k] {
						what += fmt.Sprintf(" (first differing field %q vs %q)", fa[k], fb[k])
						break
					}
				}
			}
			return i, what
		}
	}
	if len(a) != len(b) {
		return n, "number-of-blocks"
	}
	return -1, ""
}

func specialC19(prof *Profile, seed uint64) *RunResult {
	res := runGenerate(prof, seed, false)
	if res.HarnessErr != "" {
		return res
	}
	res.Stats.Count("rule:C19.replay-twin")
	twin := runReplay(prof, res.Trace, false)
	if twin.HarnessErr != "" {
		res.HarnessErr = "replay twin: " + twin.HarnessErr
		return res
	}
	if blk, what := firstDivergence(res.HashLog, twin.HashLog); blk >= 0 {
		res.Viol = append(res.Viol, Violation{Prop: "C19", Rule: "replay-identical", FP: "in-process-replay-differs " + classifyDivergence(res.HashLog, twin.HashLog, blk), Detail: fmt.Sprintf("replaying the recorded trace on a second instance diverges at block #%d (%s):\n first:  %.400s\n second: %.400s", blk, what, at(res.HashLog, blk), at(twin.HashLog, blk))+ackDivergence(res.AckLog, twin.AckLog)})
	} else if res.Final != twin.Final {
		res.Viol = append(res.Viol, Violation{Prop: "C19", Rule: "replay-identical", FP: "final-state-differs", Detail: "exported genesis or bank balances differ between the run and its replay"})
	}
	// restarts must be invisible: the same trace with the node rebuilt from the DB before every block
	rt := res
	if seed%2 == 0 {
		res.Stats.Count("rule:C19.restart-twin")
		rt = runReplayOpt(prof, res.Trace, false, true)
	}
	if rt.HarnessErr != "" {
		res.HarnessErr = "restart twin: " + rt.HarnessErr
		return res
	}
	if blk, what := firstDivergence(res.HashLog, rt.HashLog); blk >= 0 {
		res.Viol = append(res.Viol, Violation{Prop: "C19", Rule: "replay-identical", FP: "restart-twin-differs " + classifyDivergence(res.HashLog, rt.HashLog, blk), Detail: fmt.Sprintf("the same trace on an instance that is rebuilt from its database before every block diverges at block #%d (%s): processing depends on process memory, not only on committed state\n as run:    %.400s\n restarted: %.400s", blk, what, at(res.HashLog, blk), at(rt.HashLog, blk)) + ackDivergence(res.AckLog, rt.AckLog)})
	}
	// a sample also in separate OS processes
	if prof.CrossProcess != nil && prof.CrossProcess(seed) {
		res.Stats.Count("rule:C19.cross-process")
		want := hashLogDigest(res.HashLog, res.Final)
		for _, procs := range []string{"1", "7"} {
			got, err := hashInSubprocess(res.Trace, prof.Name, procs)
			if err != nil {
				res.HarnessErr = "cross-process replay: " + err.Error()
				return res
			}
			res.Stats.Count("cross_process_replays")
			if got != want {
				res.Viol = append(res.Viol, Violation{Prop: "C19", Rule: "replay-identical", FP: "cross-process-replay-differs", Detail: fmt.Sprintf("replaying the trace in another OS process (GOMAXPROCS=%s) gives digest %s, this process %s", procs, got, want)})
				break
			}
		}
	}
	return res
}

func at(x []string, i int) string {
	if i < len(x) {
		return x[i]
	}
	return "<none>"
}

// classifyDivergence: a stable fingerprint part — what first differs.
func classifyDivergence(a, b []string, blk int) string {
	if blk >= len(a) || blk >= len(b) {
		return "length"
	}
	fa, fb := strings.Split(a[blk], " ["), strings.Split(b[blk], " [")
	for k := 1; k < len(fa) && k < len(fb); k++ {
		if fa[k] != fb[k] {
			pa, pb := strings.Fields(fa[k]), strings.Fields(fb[k])
			for x := 0; x < len(pa) && x < len(pb); x++ {
				if pa[x] != pb[x] {
					switch {
					case strings.HasPrefix(pa[x], "code="):
						return "tx-code"
					case strings.HasPrefix(pa[x], "gas="):
						return "gas-used"
					case strings.HasPrefix(pa[x], "ev="):
						return "events-or-ack-bytes"
					}
				}
			}
			return "tx-result"
		}
	}
	return "app-hash-only"
}

// ackDivergence shows the first acknowledgement whose bytes differ between two executions.
func ackDivergence(a, b []string) string {
	for i := 0; i < len(a) && i < len(b); i++ {
		if a[i] != b[i] {
			return fmt.Sprintf("\n first differing acknowledgement:\n  %.500s\n  %.500s", a[i], b[i])
		}
	}
	return ""
}

func hashInSubprocess(trace []Op, prof, procs string) (string, error) {
	f, err := os.CreateTemp("", "orbsim-trace-*.json")
	if err != nil {
		return "", err
	}
	defer os.Remove(f.Name())
	bz, _ := json.Marshal(&ReplayFile{Profile: prof, Trace: trace, Mode: "sim"})
	f.Write(bz)
	f.Close()
	self, _ := os.Executable()
	cmd := exec.Command(self, "hashlog", "-file", f.Name())
	cmd.Env = append(os.Environ(), "GOMAXPROCS="+procs)
	out, err := cmd.Output()
	if err != nil {
		return "", fmt.Errorf("hashlog subprocess: %v", err)
	}
	return strings.TrimSpace(string(out)), nil
}

func hashlogMain(path string) int {
	bz, err := os.ReadFile(path)
	if err != nil {
		return 2
	}
	var rf ReplayFile
	if json.Unmarshal(bz, &rf) != nil {
		return 2
	}
	res := runReplay(profileFor(rf.Profile), rf.Trace, false)
	if res.HarnessErr != "" {
		fmt.Fprintln(os.Stderr, res.HarnessErr)
		return 2
	}
	fmt.Println(hashLogDigest(res.HashLog, res.Final))
	return 0
}

// traceCheckC19: the twin comparison on a given trace, repeated (a map-order dependence shows
// only with some probability per execution).
func traceCheckC19(prof *Profile, trace []Op) *RunResult {
	var last *RunResult
	for i := 0; i < 5; i++ {
		a := runReplay(prof, trace, false)
		b := runReplay(prof, trace, false)
		last = a
		if a.HarnessErr != "" || b.HarnessErr != "" {
			a.HarnessErr += b.HarnessErr
			return a
		}
		if blk, what := firstDivergence(a.HashLog, b.HashLog); blk >= 0 {
			a.Viol = append(a.Viol, Violation{Prop: "C19", Rule: "replay-identical", FP: "in-process-replay-differs " + classifyDivergence(a.HashLog, b.HashLog, blk), Detail: fmt.Sprintf("two executions of the same trace diverge at block #%d (%s):\n first:  %.400s\n second: %.400s", blk, what, at(a.HashLog, blk), at(b.HashLog, blk))+ackDivergence(a.AckLog, b.AckLog)})
			return a
		}
		c := runReplayOpt(prof, trace, false, true)
		if c.HarnessErr == "" {
			if blk, what := firstDivergence(a.HashLog, c.HashLog); blk >= 0 {
				a.Viol = append(a.Viol, Violation{Prop: "C19", Rule: "replay-identical", FP: "restart-twin-differs " + classifyDivergence(a.HashLog, c.HashLog, blk), Detail: fmt.Sprintf("the same trace on an instance that is rebuilt from its database before every block diverges at block #%d (%s)\n as run:    %.400s\n restarted: %.400s", blk, what, at(a.HashLog, blk), at(c.HashLog, blk)) + ackDivergence(a.AckLog, c.AckLog)})
				return a
			}
		}
		if a.Final != b.Final {
			a.Viol = append(a.Viol, Violation{Prop: "C19", Rule: "replay-identical", FP: "final-state-differs", Detail: "exported genesis or bank balances differ between two executions of the same trace"})
			return a
		}
	}
	return last
}

var _ = filepath.Join
