package main

// ModeB: interposed keeper (see modeb_impl.go)
type ModeB struct{}
