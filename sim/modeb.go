package main

// Mode B — interposed node. After NewSimApp returns, a second orbiter keeper is built from
// the module's public constructors on the SAME orbiter store key, but with wrapped
// dependencies: every call orbiter makes to the outside (bank, CCTP, Hyperlane, internal
// bank message server, event manager, wrapped ICS-20 application) goes through a wrapper
// that records it and can fail it, before or after the real call. The IBC route is swapped
// to blockibc(orbiter-middleware(wrap(transfer))). A test action registered under
// ACTION_SWAP changes the denomination (needed by C06/C12).

import (
	"context"
	"errors"
	"fmt"
	"math/big"
	"strings"

	"cosmossdk.io/core/event"
	errorsmod "cosmossdk.io/errors"
	corestore "cosmossdk.io/core/store"
	"cosmossdk.io/log"
	sdkmath "cosmossdk.io/math"
	warpkeeper "github.com/bcp-innovations/hyperlane-cosmos/x/warp/keeper"
	warptypes "github.com/bcp-innovations/hyperlane-cosmos/x/warp/types"
	cctpkeeper "github.com/circlefin/noble-cctp/x/cctp/keeper"
	cctptypes "github.com/circlefin/noble-cctp/x/cctp/types"
	"github.com/circlefin/noble-fiattokenfactory/x/blockibc"
	"github.com/cosmos/cosmos-sdk/runtime"
	sdk "github.com/cosmos/cosmos-sdk/types"
	sdkerrors "github.com/cosmos/cosmos-sdk/types/errors"
	authcodec "github.com/cosmos/cosmos-sdk/x/auth/codec"
	bankkeeper "github.com/cosmos/cosmos-sdk/x/bank/keeper"
	banktypes "github.com/cosmos/cosmos-sdk/x/bank/types"
	"github.com/cosmos/ibc-go/v8/modules/apps/transfer"
	transfertypes "github.com/cosmos/ibc-go/v8/modules/apps/transfer/types"
	channeltypes "github.com/cosmos/ibc-go/v8/modules/core/04-channel/types"
	porttypes "github.com/cosmos/ibc-go/v8/modules/core/05-port/types"
	ibcexported "github.com/cosmos/ibc-go/v8/modules/core/exported"
	"google.golang.org/protobuf/runtime/protoiface"

	"github.com/noble-assets/orbiter/v2/controller"
	actionctrl "github.com/noble-assets/orbiter/v2/controller/action"
	adapterctrl "github.com/noble-assets/orbiter/v2/controller/adapter"
	forwardingctrl "github.com/noble-assets/orbiter/v2/controller/forwarding"
	"github.com/noble-assets/orbiter/v2/entrypoint"
	orbiterkeeper "github.com/noble-assets/orbiter/v2/keeper"
	forwardercomp "github.com/noble-assets/orbiter/v2/keeper/component/forwarder"
	"github.com/noble-assets/orbiter/v2/testutil/testdata"
	orbitertypes "github.com/noble-assets/orbiter/v2/types"
	forwardertypes "github.com/noble-assets/orbiter/v2/types/component/forwarder"
	forwardingtypes "github.com/noble-assets/orbiter/v2/types/controller/forwarding"
	"github.com/noble-assets/orbiter/v2/types/core"
)

const (
	faultNone   = 0
	faultBefore = 1 // the call is not made; an error is returned
	faultAfter  = 2 // the real call runs, then an error is returned
	faultPanic  = 3 // the call panics (a downstream module that aborts instead of returning an error)
)

type CallRec struct {
	Site string
	Req  any // copy of the request where there is one
}

// Plan: which dynamic call indexes fail, and how.
type Plan struct {
	Fail  map[int]int // call index -> faultBefore|faultAfter
	Calls []CallRec
	Fired []int
	// Store: the orbiter's own key-value store is a fault seam too (every Get/Has/Set/Delete/Iterator of the
	// interposed keeper is a recorded call that can fail). Off unless a check asks for it, so that call indexes
	// of the downstream seams alone stay what they were.
	Store bool
}

func (p *Plan) hit(site string, req any) int {
	p.Calls = append(p.Calls, CallRec{Site: site, Req: req})
	idx := len(p.Calls) - 1
	if m := p.Fail[idx]; m != 0 {
		p.Fired = append(p.Fired, idx)
		if m == faultPanic && site != "bank.GetBalance" {
			if strings.HasPrefix(site, "store.") {
				panic("injected downstream panic at " + site + " (store)")
			}
			panic("injected downstream panic at " + site)
		}
		return m
	}
	return faultNone
}

var errInjected = errors.New("injected downstream failure")

// injectedErrClasses: the error value an injected failure carries. Code may branch on the class of a downstream
// error (errors.Is), so a fault is a pair (call, class): a plain error and the registered classes real modules return.
var injectedErrClasses = []error{
	errInjected,
	errorsmod.Wrap(sdkerrors.ErrInsufficientFunds, "injected downstream failure"),
	errorsmod.Wrap(sdkerrors.ErrUnauthorized, "injected downstream failure"),
	errorsmod.Wrap(sdkmath.ErrIntOverflow, "injected downstream failure"),
	errorsmod.Wrap(sdkerrors.ErrInvalidRequest, "injected downstream failure"),
}
var injectedErrNames = []string{"plain", "insufficient-funds", "unauthorized", "int-overflow", "invalid-request"}

// errClass selects the class for the plan in force (one worker process runs one simulation at a time).
var errClass int

// storeErrOverride, when set, is what a failing store call returns (classes that only make sense for the store).
var storeErrOverride error

func injErr() error { return injectedErrClasses[errClass%len(injectedErrClasses)] }

func storeErr() error {
	if storeErrOverride != nil {
		return storeErrOverride
	}
	return injErr()
}


type ModeB struct {
	Plan   *Plan
	K      *orbiterkeeper.Keeper
	Stack  porttypes.IBCModule
	MsgFwd forwardertypes.MsgServer
}

func (b *ModeB) Reset(fail map[int]int) {
	if fail == nil {
		errClass = 0
	}
	b.Plan.Fail, b.Plan.Calls, b.Plan.Fired = fail, nil, nil
}

// ---- wrappers

// fStoreService wraps the orbiter module's KVStoreService: a failing disk / state store as seen through the
// error results of cosmossdk.io/core/store.KVStore. Sites are named by operation and by the first byte of the key
// (the collection the call belongs to), e.g. "store.Has@11".
type fStoreService struct {
	inner corestore.KVStoreService
	p     *Plan
}

func (s fStoreService) OpenKVStore(ctx context.Context) corestore.KVStore {
	return fStore{s.inner.OpenKVStore(ctx), s.p}
}

type fStore struct {
	inner corestore.KVStore
	p     *Plan
}

func storeSite(op string, key []byte) string {
	if len(key) == 0 {
		return "store." + op + "@-"
	}
	return fmt.Sprintf("store.%s@%d", op, key[0])
}

func (s fStore) Get(key []byte) ([]byte, error) {
	if s.p.Store && s.p.hit(storeSite("Get", key), nil) != faultNone {
		return nil, storeErr()
	}
	return s.inner.Get(key)
}

func (s fStore) Has(key []byte) (bool, error) {
	if s.p.Store && s.p.hit(storeSite("Has", key), nil) != faultNone {
		return false, storeErr()
	}
	return s.inner.Has(key)
}

func (s fStore) Set(key, value []byte) error {
	m := faultNone
	if s.p.Store {
		m = s.p.hit(storeSite("Set", key), nil)
	}
	if m == faultBefore {
		return storeErr()
	}
	err := s.inner.Set(key, value)
	if m == faultAfter {
		return storeErr() // the write reached the store, its acknowledgement was lost
	}
	return err
}

func (s fStore) Delete(key []byte) error {
	m := faultNone
	if s.p.Store {
		m = s.p.hit(storeSite("Delete", key), nil)
	}
	if m == faultBefore {
		return storeErr()
	}
	err := s.inner.Delete(key)
	if m == faultAfter {
		return storeErr()
	}
	return err
}

func (s fStore) Iterator(start, end []byte) (corestore.Iterator, error) {
	if s.p.Store && s.p.hit(storeSite("Iterator", start), nil) != faultNone {
		return nil, storeErr()
	}
	return s.inner.Iterator(start, end)
}

func (s fStore) ReverseIterator(start, end []byte) (corestore.Iterator, error) {
	if s.p.Store && s.p.hit(storeSite("ReverseIterator", start), nil) != faultNone {
		return nil, storeErr()
	}
	return s.inner.ReverseIterator(start, end)
}

type fBank struct {
	bankkeeper.Keeper
	p *Plan
}

func (b fBank) SendCoins(ctx context.Context, from, to sdk.AccAddress, amt sdk.Coins) error {
	switch b.p.hit("bank.SendCoins", fmt.Sprintf("%s->%s %s", from, to, amt)) {
	case faultBefore:
		return injErr()
	case faultAfter:
		_ = b.Keeper.SendCoins(ctx, from, to, amt)
		return injErr()
	}
	return b.Keeper.SendCoins(ctx, from, to, amt)
}

func (b fBank) SendCoinsFromModuleToModule(ctx context.Context, s, r string, amt sdk.Coins) error {
	switch b.p.hit("bank.SendCoinsFromModuleToModule", fmt.Sprintf("%s->%s %s", s, r, amt)) {
	case faultBefore:
		return injErr()
	case faultAfter:
		_ = b.Keeper.SendCoinsFromModuleToModule(ctx, s, r, amt)
		return injErr()
	}
	return b.Keeper.SendCoinsFromModuleToModule(ctx, s, r, amt)
}

func (b fBank) GetBalance(ctx context.Context, addr sdk.AccAddress, denom string) sdk.Coin {
	b.p.hit("bank.GetBalance", nil) // recorded only: returning wrong data is not a fault this technique injects
	return b.Keeper.GetBalance(ctx, addr, denom)
}

type fCCTP struct {
	inner forwardingtypes.CCTPMsgServer
	p     *Plan
}

func (c fCCTP) DepositForBurn(ctx context.Context, m *cctptypes.MsgDepositForBurn) (*cctptypes.MsgDepositForBurnResponse, error) {
	cp := *m
	switch c.p.hit("cctp.DepositForBurn", cp) {
	case faultBefore:
		return nil, injErr()
	case faultAfter:
		_, _ = c.inner.DepositForBurn(ctx, m)
		return nil, injErr()
	}
	return c.inner.DepositForBurn(ctx, m)
}

func (c fCCTP) DepositForBurnWithCaller(ctx context.Context, m *cctptypes.MsgDepositForBurnWithCaller) (*cctptypes.MsgDepositForBurnWithCallerResponse, error) {
	cp := *m
	switch c.p.hit("cctp.DepositForBurnWithCaller", cp) {
	case faultBefore:
		return nil, injErr()
	case faultAfter:
		_, _ = c.inner.DepositForBurnWithCaller(ctx, m)
		return nil, injErr()
	}
	return c.inner.DepositForBurnWithCaller(ctx, m)
}

func (c fCCTP) ReplaceDepositForBurn(ctx context.Context, m *cctptypes.MsgReplaceDepositForBurn) (*cctptypes.MsgReplaceDepositForBurnResponse, error) {
	cp := *m
	switch c.p.hit("cctp.ReplaceDepositForBurn", cp) {
	case faultBefore:
		return nil, injErr()
	case faultAfter:
		_, _ = c.inner.ReplaceDepositForBurn(ctx, m)
		return nil, injErr()
	}
	return c.inner.ReplaceDepositForBurn(ctx, m)
}

type fHyp struct {
	inner forwardingtypes.HyperlaneHandler
	p     *Plan
}

func (h fHyp) RemoteTransfer(ctx context.Context, m *warptypes.MsgRemoteTransfer) (*warptypes.MsgRemoteTransferResponse, error) {
	cp := *m
	switch h.p.hit("hyperlane.RemoteTransfer", cp) {
	case faultBefore:
		return nil, injErr()
	case faultAfter:
		_, _ = h.inner.RemoteTransfer(ctx, m)
		return nil, injErr()
	}
	return h.inner.RemoteTransfer(ctx, m)
}

func (h fHyp) Token(ctx context.Context, q *warptypes.QueryTokenRequest) (*warptypes.QueryTokenResponse, error) {
	cp := *q
	switch h.p.hit("hyperlane.Token", cp) {
	case faultBefore, faultAfter:
		return nil, injErr()
	}
	return h.inner.Token(ctx, q)
}

type fInternal struct {
	inner forwardingtypes.InternalHandler
	p     *Plan
}

func (i fInternal) Send(ctx context.Context, m *banktypes.MsgSend) (*banktypes.MsgSendResponse, error) {
	cp := *m
	switch i.p.hit("internal.Send", cp) {
	case faultBefore:
		return nil, injErr()
	case faultAfter:
		_, _ = i.inner.Send(ctx, m)
		return nil, injErr()
	}
	return i.inner.Send(ctx, m)
}

type fEvents struct {
	inner event.Service
	p     *Plan
}

type fEM struct {
	event.Manager
	p *Plan
}

func (e fEvents) EventManager(ctx context.Context) event.Manager {
	return fEM{e.inner.EventManager(ctx), e.p}
}

func (m fEM) Emit(ctx context.Context, ev protoiface.MessageV1) error {
	name := fmt.Sprintf("%T", ev)
	if i := strings.LastIndex(name, "."); i >= 0 {
		name = name[i+1:]
	}
	switch m.p.hit("event.Emit("+name+")", nil) {
	case faultBefore:
		return injErr()
	case faultAfter:
		_ = m.Manager.Emit(ctx, ev)
		return injErr()
	}
	return m.Manager.Emit(ctx, ev)
}

// fApp wraps the ICS-20 application below the orbiter middleware.
type fApp struct {
	porttypes.IBCModule
	p *Plan
}

func (a fApp) OnRecvPacket(ctx sdk.Context, packet channeltypes.Packet, relayer sdk.AccAddress) ibcexported.Acknowledgement {
	switch a.p.hit("ics20.OnRecvPacket", nil) {
	case faultBefore:
		return channeltypes.NewErrorAcknowledgement(injErr())
	case faultAfter:
		_ = a.IBCModule.OnRecvPacket(ctx, packet, relayer)
		return channeltypes.NewErrorAcknowledgement(injErr())
	}
	return a.IBCModule.OnRecvPacket(ctx, packet, relayer)
}

// ---- the denomination-changing test action (registered under ACTION_SWAP)

// swapController converts the running coin into another denomination at a rational rate
// through a pool account: attributes "Whatever" = "<target denom>:<num>/<den>".
type swapController struct {
	*controller.BaseController[core.ActionID]
	bank bankkeeper.Keeper
	pool sdk.AccAddress
}

func parseSwap(w string) (denom string, num, den int64, ok bool) {
	i := strings.Index(w, ":")
	if i < 0 {
		return
	}
	denom = w[:i]
	if _, err := fmt.Sscanf(w[i+1:], "%d/%d", &num, &den); err != nil || num <= 0 || den <= 0 {
		return
	}
	return denom, num, den, true
}

func (c *swapController) HandlePacket(ctx context.Context, packet *orbitertypes.ActionPacket) error {
	attr, err := packet.Action.CachedAttributes()
	if err != nil {
		return err
	}
	ta, ok := attr.(*testdata.TestActionAttr)
	if !ok {
		return fmt.Errorf("swap: unexpected attributes %T", attr)
	}
	denom, num, den, ok := parseSwap(ta.Whatever)
	if !ok {
		return fmt.Errorf("swap: bad attributes %q", ta.Whatever)
	}
	t := packet.TransferAttributes
	in := t.DestinationAmount()
	out := new(big.Int).Mul(in.BigInt(), big.NewInt(num))
	out.Quo(out, big.NewInt(den))
	if out.Sign() <= 0 || out.BitLen() > 255 {
		return fmt.Errorf("swap: output out of range")
	}
	if err := c.bank.SendCoins(ctx, core.ModuleAddress, c.pool, sdk.NewCoins(sdk.NewCoin(t.DestinationDenom(), in))); err != nil {
		return err
	}
	if err := c.bank.SendCoins(ctx, c.pool, core.ModuleAddress, sdk.NewCoins(sdk.NewCoin(denom, sdkmath.NewIntFromBigInt(out)))); err != nil {
		return err
	}
	t.SetDestinationDenom(denom)
	t.SetDestinationAmount(sdkmath.NewIntFromBigInt(out))
	return nil
}

// installModeB builds the interposed keeper and swaps the IBC route. Called after every boot.
func installModeB(n *Node) *ModeB {
	app := n.App
	cdc := app.OrbiterKeeper.Codec()
	cdc.InterfaceRegistry().RegisterImplementations((*core.ActionAttributes)(nil), &testdata.TestActionAttr{})
	p := &Plan{Fail: map[int]int{}}
	logger := log.NewNopLogger()
	evs := fEvents{runtime.ProvideEventService(), p}
	bank := fBank{app.BankKeeper, p}
	k2 := orbiterkeeper.NewKeeper(cdc, authcodec.NewBech32Codec("noble"), logger, evs, fStoreService{runtime.NewKVStoreService(app.GetKey("orbiter")), p}, app.OrbiterKeeper.Authority(), bank)
	cctpC, err := forwardingctrl.NewCCTPController(logger, fCCTP{cctpkeeper.NewMsgServerImpl(app.CCTPKeeper), p})
	must(err)
	hypC, err := forwardingctrl.NewHyperlaneController(logger, fHyp{forwardingtypes.NewHyperlaneHandler(warpkeeper.NewMsgServerImpl(app.WarpKeeper), warpkeeper.NewQueryServerImpl(app.WarpKeeper)), p})
	must(err)
	intC, err := forwardingctrl.NewInternalController(logger, fInternal{bankkeeper.NewMsgServerImpl(app.BankKeeper), p})
	must(err)
	must(k2.SetForwardingControllers(cctpC, hypC, intC))
	feeC, err := actionctrl.NewFeeController(logger, evs, bank)
	must(err)
	base, err := controller.NewBase(core.ACTION_SWAP)
	must(err)
	swapC := &swapController{BaseController: base, bank: app.BankKeeper, pool: n.Env.Pool.Addr}
	must(k2.SetActionControllers(feeC, swapC))
	ibcA, err := adapterctrl.NewIBCAdapter(cdc, logger)
	must(err)
	must(k2.SetAdapterControllers(ibcA))
	var stack porttypes.IBCModule = fApp{transfer.NewIBCModule(app.TransferKeeper), p}
	stack = entrypoint.NewIBCMiddleware(stack, app.IBCKeeper.ChannelKeeper, k2.Adapter())
	stack = blockibc.NewIBCMiddleware(stack, app.FTFKeeper)
	r := porttypes.NewRouter().AddRoute(transfertypes.ModuleName, stack)
	r.Seal()
	app.IBCKeeper.Router = r
	app.IBCKeeper.PortKeeper.Router = r
	return &ModeB{Plan: p, K: k2, Stack: stack, MsgFwd: forwardercomp.NewMsgServer(k2.Forwarder(), k2)}
}

func must(err error) {
	if err != nil {
		panic(harnessErr("mode B wiring: %v", err))
	}
}
