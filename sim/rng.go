package main

// One integer decides everything: every choice of the generator is drawn from this
// PRNG (xoshiro256**, seeded through splitmix64), which is independent of the Go
// version's math/rand. Logging and oracles never draw from it.

type Rng struct {
	s     [4]uint64
	Draws uint64
}

func NewRng(seed uint64) *Rng {
	r := &Rng{}
	x := seed
	for i := 0; i < 4; i++ {
		x += 0x9e3779b97f4a7c15
		z := x
		z = (z ^ (z >> 30)) * 0xbf58476d1ce4e5b9
		z = (z ^ (z >> 27)) * 0x94d049bb133111eb
		r.s[i] = z ^ (z >> 31)
	}
	return r
}

func rotl(x uint64, k uint) uint64 { return (x << k) | (x >> (64 - k)) }

func (r *Rng) U64() uint64 {
	r.Draws++
	res := rotl(r.s[1]*5, 7) * 9
	t := r.s[1] << 17
	r.s[2] ^= r.s[0]
	r.s[3] ^= r.s[1]
	r.s[1] ^= r.s[2]
	r.s[0] ^= r.s[3]
	r.s[2] ^= t
	r.s[3] = rotl(r.s[3], 45)
	return res
}

// Intn returns a value in [0,n). n must be > 0.
func (r *Rng) Intn(n int) int {
	if n <= 0 {
		return 0
	}
	return int(r.U64() % uint64(n))
}

// Bool is true with probability p.
func (r *Rng) Bool(p float64) bool { return float64(r.U64()>>11)/float64(1<<53) < p }

func (r *Rng) Float() float64 { return float64(r.U64()>>11) / float64(1<<53) }

// Pick chooses an index according to integer weights.
func (r *Rng) Pick(w []int) int {
	t := 0
	for _, x := range w {
		if x > 0 {
			t += x
		}
	}
	if t == 0 {
		return 0
	}
	k := r.Intn(t)
	for i, x := range w {
		if x <= 0 {
			continue
		}
		if k < x {
			return i
		}
		k -= x
	}
	return len(w) - 1
}

func (r *Rng) Bytes(n int) []byte {
	b := make([]byte, n)
	for i := range b {
		b[i] = byte(r.U64())
	}
	return b
}

// Derive gives an independent stream for a sub-purpose (label-separated).
func (r *Rng) Derive(label uint64) *Rng { return NewRng(r.U64() ^ (label * 0x9e3779b97f4a7c15)) }

func pickStr(r *Rng, xs []string) string { return xs[r.Intn(len(xs))] }
