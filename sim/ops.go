package main

// The trace: a run is a list of Ops. Generation is adaptive (the generator looks at
// the world), but every Op is total: executed in any context it either has its effect
// or is a no-op, so any sub-sequence of a trace is again an executable trace. That is
// what makes delta-debugging of schedules possible. Ops refer to packets by the ID of
// the op that created them (Ref), never by position.

import (
	"encoding/base64"
	"fmt"
	"sort"
	"strings"
	"time"

	sdkmath "cosmossdk.io/math"
	hyputil "github.com/bcp-innovations/hyperlane-cosmos/util"
	gogoproto "github.com/cosmos/gogoproto/proto"
	warptypes "github.com/bcp-innovations/hyperlane-cosmos/x/warp/types"
	cctptypes "github.com/circlefin/noble-cctp/x/cctp/types"
	ftftypes "github.com/circlefin/noble-fiattokenfactory/x/fiattokenfactory/types"
	sdk "github.com/cosmos/cosmos-sdk/types"
	authtypes "github.com/cosmos/cosmos-sdk/x/auth/types"
	banktypes "github.com/cosmos/cosmos-sdk/x/bank/types"
	transfertypes "github.com/cosmos/ibc-go/v8/modules/apps/transfer/types"
	clienttypes "github.com/cosmos/ibc-go/v8/modules/core/02-client/types"
	channeltypes "github.com/cosmos/ibc-go/v8/modules/core/04-channel/types"

	adaptertypes "github.com/noble-assets/orbiter/v2/types/component/adapter"
	executortypes "github.com/noble-assets/orbiter/v2/types/component/executor"
	forwardertypes "github.com/noble-assets/orbiter/v2/types/component/forwarder"
)

type Op struct {
	ID int    `json:"id"`
	K  string `json:"k"`
	// send / sendout / dust / byz
	Pair  int    `json:"pair,omitempty"`
	User  int    `json:"user,omitempty"`
	Denom string `json:"denom,omitempty"` // native denom name; for send it is resolved to the voucher on the pair's B end unless RawDenom
	RawDn bool   `json:"rawdn,omitempty"`
	Amt   string `json:"amt,omitempty"`
	Recv  string `json:"recv,omitempty"`
	Memo  string `json:"memo,omitempty"`
	TO    int    `json:"to,omitempty"` // timeout: 0 = far future; n>0 = height now+n
	TOS   int    `json:"tos,omitempty"` // timeout by timestamp: n>0 = block time now+n seconds (instead of a height)
	Class string `json:"class,omitempty"`
	// deliver / ack / timeout / batch
	Ref  int    `json:"ref,omitempty"`
	Refs []int  `json:"refs,omitempty"`
	Gas  uint64 `json:"gas,omitempty"` // 0 = ample
	Rel  int    `json:"rel,omitempty"`
	// block
	Dt   int    `json:"dt,omitempty"`
	Perm uint64 `json:"perm,omitempty"`
	Sim    uint64 `json:"sim,omitempty"`    // bit i set: tx i of the block is first simulated (gas estimation) on the node; the result is discarded
	Crash  bool   `json:"crash,omitempty"`  // the node crashes after executing this block and before committing it; the block is executed again after the restart
	Inject string `json:"inject,omitempty"` // mode B: "<call index>:<1 before|2 after>" failing one downstream call in this block
	// admin (orbiter, FTF, CCTP, warp) and impostor
	Msg    string   `json:"msg,omitempty"`
	Proto  string   `json:"proto,omitempty"`
	Ids    []string `json:"ids,omitempty"`
	Act    string   `json:"act,omitempty"`
	N      uint64   `json:"n,omitempty"`
	Signer string   `json:"signer,omitempty"` // account name; "" = the rightful signer
	SigStr string   `json:"sigstr,omitempty"` // literal signer string inside the message (impostor variants)
	Target string   `json:"target,omitempty"`
	Dom    uint32   `json:"dom,omitempty"`
	Raw    string   `json:"raw,omitempty"` // base64 packet data (byz)
	Note   string   `json:"note,omitempty"`
	Ghost  bool     `json:"ghost,omitempty"` // hyptoken: the transaction is only simulated on the node, never delivered
	Fail   bool     `json:"fail,omitempty"` // admin: append a message that fails, so the whole tx is rolled back
}

type PktState int

const (
	PktInFlight PktState = iota
	PktReceived          // receipt + ack written on the destination end
	PktAcked             // ack relayed back to the source end
	PktTimedOut
	PktAbandoned // byzantine packet whose acknowledgement the (non-existent) source chain cannot process
)

type Pkt struct {
	Origin  int // ID of the op that created it
	Seq     uint64
	SrcChan string
	DstChan string
	Data    []byte
	TOHeight uint64
	TOTime   uint64
	State   PktState
	Ack     []byte
	Byz     bool
	Class   string
	SentAt  int64
	// bookkeeping for exactly-once checks
	SuccessDeliveries int
	Poisoned          bool // its delivery panics: it can never be settled
	OutMsgs           int
}

func (p *Pkt) packet() channeltypes.Packet {
	return channeltypes.NewPacket(p.Data, p.Seq, "transfer", p.SrcChan, "transfer", p.DstChan, clienttypes.NewHeight(0, p.TOHeight), p.TOTime)
}

// towardsNoble: the packet arrives at an A end (Noble's side of a pair).
func (p *Pkt) pairAndEnd() (pair int, atA bool) {
	var n int
	fmt.Sscanf(p.DstChan, "channel-%d", &n)
	return n / 2, n%2 == 0
}

type txMeta struct {
	OpID    int
	Kind    string // send | recv | ack | timeout | admin | env | dust | sendout | impostor | bank
	Op      Op
	Pkts    []*Pkt // recv (one per msg), ack, timeout
	GasCut  bool
	Class   string
	Shadow  []*shadowResult // per msg, when shadows are enabled
	soleInBlock bool
	ModelAtShadow *OrbModel
	DustBlacklistedAtShadow bool
}

func (s *Sim) acct(name string) *Account {
	a := s.Env.Accts[name]
	if a == nil {
		return nil
	}
	return a
}

func mustInt(str string) (sdkmath.Int, bool) {
	i, ok := sdkmath.NewIntFromString(str)
	return i, ok
}

// Exec executes one op. It never fails: an op that makes no sense in the current
// world is a no-op (recorded as skipped).
func (s *Sim) Exec(op Op) {
	s.opCount++
	switch op.K {
	case "send":
		s.execSend(op)
	case "sendout":
		s.execSendOut(op)
	case "byz":
		s.execByz(op)
	case "deliver":
		s.execDeliver(op)
	case "ack":
		s.execAck(op)
	case "timeout":
		s.execTimeout(op)
	case "block":
		s.execBlock(op)
	case "mode":
		// marker at the head of a trace (which node mode the run uses); handled when the world is built
	case "restart":
		s.flushBlockIfPending()
		s.N.Restart()
		s.Stats.Fault("restart")
		if s.inflightCount() >= 3 {
			s.Stats.Probe("restart_with_3_inflight")
		}
	case "dust":
		s.execDust(op)
	case "admin":
		s.execAdmin(op)
	case "hyptoken":
		s.execHypToken(op)
	case "checkpoint":
		s.flushBlockIfPending()
		s.checkpoint(op)
	case "drain":
		s.drain()
	default:
		panic(harnessErr("unknown op kind %q", op.K))
	}
}

func (s *Sim) skip(op Op, why string) {
	s.Stats.Skipped++
	s.logf("op %d %s skipped: %s", op.ID, op.K, why)
}

func (s *Sim) enqueue(t *PendingTx) { s.Mempool = append(s.Mempool, t) }

func (s *Sim) farTimeout() uint64 { return uint64(GenesisTime.Add(100000 * time.Hour).UnixNano()) }

func (s *Sim) execSend(op Op) {
	if op.Pair < 0 || op.Pair >= NumPairs || op.User < 0 || op.User >= NumRemote {
		s.skip(op, "bad pair/user")
		return
	}
	u := s.Env.Remote[op.Pair][op.User]
	denom := op.Denom
	if !op.RawDn {
		denom = voucherOnB(op.Pair, op.Denom)
	}
	amt, ok := mustInt(op.Amt)
	if !ok || !amt.IsPositive() {
		s.skip(op, "bad amount")
		return
	}
	if err := sdk.ValidateDenom(denom); err != nil {
		s.skip(op, "bad denom")
		return
	}
	var th clienttypes.Height
	tt := s.farTimeout()
	if op.TO > 0 {
		th = clienttypes.NewHeight(0, uint64(s.N.Height+int64(op.TO)))
		tt = 0
	} else if op.TOS > 0 {
		tt = uint64(s.N.Now().Add(time.Duration(op.TOS) * time.Second).UnixNano())
	}
	msg := transfertypes.NewMsgTransfer("transfer", chanB(op.Pair), sdk.NewCoin(denom, amt), u.Addr.String(), op.Recv, th, tt, op.Memo)
	s.enqueue(&PendingTx{Signer: u, Gas: 3_000_000, Msgs: []sdk.Msg{msg}, Meta: &txMeta{OpID: op.ID, Kind: "send", Op: op, Class: op.Class}})
}

func (s *Sim) execSendOut(op Op) {
	if op.Pair < 0 || op.Pair >= NumPairs || op.User < 0 || op.User >= NumNoble {
		s.skip(op, "bad pair/user")
		return
	}
	u := s.Env.Noble[op.User]
	amt, ok := mustInt(op.Amt)
	if !ok || !amt.IsPositive() || sdk.ValidateDenom(op.Denom) != nil {
		s.skip(op, "bad amount/denom")
		return
	}
	var th clienttypes.Height
	tt := s.farTimeout()
	if op.TO > 0 {
		th = clienttypes.NewHeight(0, uint64(s.N.Height+int64(op.TO)))
		tt = 0
	} else if op.TOS > 0 {
		tt = uint64(s.N.Now().Add(time.Duration(op.TOS) * time.Second).UnixNano())
	}
	msg := transfertypes.NewMsgTransfer("transfer", chanA(op.Pair), sdk.NewCoin(op.Denom, amt), u.Addr.String(), op.Recv, th, tt, op.Memo)
	s.enqueue(&PendingTx{Signer: u, Gas: 3_000_000, Msgs: []sdk.Msg{msg}, Meta: &txMeta{OpID: op.ID, Kind: "sendout", Op: op, Class: op.Class}})
}

// execByz: the byzantine counterparty commits an arbitrary packet on the B end of a pair.
// On a real remote chain this is simply that chain's own state; here it is a direct write
// of commitment + next sequence into the working state between two blocks.
func (s *Sim) execByz(op Op) {
	if op.Pair < 0 || op.Pair >= NumPairs {
		s.skip(op, "bad pair")
		return
	}
	data, err := base64.StdEncoding.DecodeString(op.Raw)
	if err != nil {
		s.skip(op, "bad raw")
		return
	}
	s.flushBlockIfPending()
	ctx := s.N.Ctx()
	ck := s.N.App.IBCKeeper.ChannelKeeper
	seq, found := ck.GetNextSequenceSend(ctx, "transfer", chanB(op.Pair))
	if !found {
		panic(harnessErr("no next sequence send for %s", chanB(op.Pair)))
	}
	p := &Pkt{Origin: op.ID, Seq: seq, SrcChan: chanB(op.Pair), DstChan: chanA(op.Pair), Data: data, TOTime: s.farTimeout(), Byz: true, Class: op.Class, SentAt: s.N.Height}
	ck.SetPacketCommitment(ctx, "transfer", chanB(op.Pair), seq, channeltypes.CommitPacket(s.N.Cdc, p.packet()))
	ck.SetNextSequenceSend(ctx, "transfer", chanB(op.Pair), seq+1)
	s.Packets = append(s.Packets, p)
	s.byOrigin[op.ID] = p
	s.Stats.Count("byz_packets")
	s.dirtyState = true
}

func (s *Sim) relayer(i int) *Account {
	if i < 0 {
		i = -i
	}
	return s.Env.Relayers[i%len(s.Env.Relayers)]
}

func (s *Sim) execDeliver(op Op) {
	refs := op.Refs
	if len(refs) == 0 {
		refs = []int{op.Ref}
	}
	var pkts []*Pkt
	var msgs []sdk.Msg
	rel := s.relayer(op.Rel)
	for _, r := range refs {
		p := s.byOrigin[r]
		if p == nil {
			continue
		}
		pkts = append(pkts, p)
		msgs = append(msgs, &channeltypes.MsgRecvPacket{Packet: p.packet(), ProofCommitment: sentinel, ProofHeight: proofHeight, Signer: rel.Addr.String()})
	}
	if len(pkts) == 0 {
		s.skip(op, "no such packet")
		return
	}
	gas := op.Gas
	cut := gas != 0
	if gas == 0 {
		gas = 5_000_000 * uint64(len(pkts))
	}
	if cut && gas < 40_000 {
		gas = 40_000 // keep the ante handler (signature verification) out of the cut
	}
	s.enqueue(&PendingTx{Signer: rel, Gas: gas, Msgs: msgs, Meta: &txMeta{OpID: op.ID, Kind: "recv", Op: op, Pkts: pkts, GasCut: cut}})
}

func (s *Sim) execAck(op Op) {
	p := s.byOrigin[op.Ref]
	if p == nil || p.State != PktReceived || p.Ack == nil {
		s.skip(op, "nothing to acknowledge")
		return
	}
	rel := s.relayer(op.Rel)
	msg := &channeltypes.MsgAcknowledgement{Packet: p.packet(), Acknowledgement: p.Ack, ProofAcked: sentinel, ProofHeight: proofHeight, Signer: rel.Addr.String()}
	s.enqueue(&PendingTx{Signer: rel, Gas: 3_000_000, Msgs: []sdk.Msg{msg}, Meta: &txMeta{OpID: op.ID, Kind: "ack", Op: op, Pkts: []*Pkt{p}}})
}

func (s *Sim) execTimeout(op Op) {
	p := s.byOrigin[op.Ref]
	if p == nil || p.State != PktInFlight {
		s.skip(op, "nothing to time out")
		return
	}
	rel := s.relayer(op.Rel)
	msg := &channeltypes.MsgTimeout{Packet: p.packet(), ProofUnreceived: sentinel, ProofHeight: clienttypes.NewHeight(0, uint64(s.N.Height)), NextSequenceRecv: 1, Signer: rel.Addr.String()}
	s.enqueue(&PendingTx{Signer: rel, Gas: 3_000_000, Msgs: []sdk.Msg{msg}, Meta: &txMeta{OpID: op.ID, Kind: "timeout", Op: op, Pkts: []*Pkt{p}}})
}

func (s *Sim) execDust(op Op) {
	amt, ok := mustInt(op.Amt)
	if !ok || !amt.IsPositive() || sdk.ValidateDenom(op.Denom) != nil {
		s.skip(op, "bad amount/denom")
		return
	}
	from := s.Env.Depositor
	if op.Signer != "" && s.acct(op.Signer) != nil {
		from = s.acct(op.Signer)
	}
	to := s.Env.Orbiter.String()
	if strings.HasPrefix(op.Target, "mod:") {
		// a plain bank send to the address of a module account (the reference application blocks only a few of them)
		to = authtypes.NewModuleAddress(op.Target[4:]).String()
	}
	msg := &banktypes.MsgSend{FromAddress: from.Addr.String(), ToAddress: to, Amount: sdk.NewCoins(sdk.NewCoin(op.Denom, amt))}
	s.enqueue(&PendingTx{Signer: from, Gas: 1_000_000, Msgs: []sdk.Msg{msg}, Meta: &txMeta{OpID: op.ID, Kind: "dust", Op: op}})
}

// targetAddr resolves a blacklist / recipient target name.
func (s *Sim) targetAddr(name string) string {
	switch name {
	case "ORBITER":
		return s.Env.Orbiter.String()
	case "DUST":
		return s.Env.Dust.String()
	}
	if a := s.acct(name); a != nil {
		return a.Addr.String()
	}
	return ""
}

// buildAdmin maps an admin op to (rightful signer, message).
func (s *Sim) buildAdmin(op Op) (*Account, sdk.Msg, string) {
	e := s.Env
	auth := e.Authority.Addr.String()
	circle := e.Circle.Addr.String()
	if op.Signer != "" && s.acct(op.Signer) != nil {
		// impostor: a real account signs (and names itself in) a message that only the authority may send
		imp := s.acct(op.Signer)
		auth = imp.Addr.String()
		defer func() {}()
		signer, msg, kind := s.buildAdmin(Op{ID: op.ID, K: op.K, Msg: op.Msg, Proto: op.Proto, Ids: op.Ids, Act: op.Act, N: op.N, SigStr: auth})
		if kind == "orbiter" {
			_ = signer
			return imp, msg, kind
		}
		return nil, nil, ""
	}
	if op.SigStr != "" {
		auth = op.SigStr
	}
	switch op.Msg {
	case "PauseProtocol":
		return e.Authority, &forwardertypes.MsgPauseProtocol{Signer: auth, ProtocolId: op.Proto}, "orbiter"
	case "UnpauseProtocol":
		return e.Authority, &forwardertypes.MsgUnpauseProtocol{Signer: auth, ProtocolId: op.Proto}, "orbiter"
	case "PauseCrossChains":
		return e.Authority, &forwardertypes.MsgPauseCrossChains{Signer: auth, ProtocolId: op.Proto, CounterpartyIds: op.Ids}, "orbiter"
	case "UnpauseCrossChains":
		return e.Authority, &forwardertypes.MsgUnpauseCrossChains{Signer: auth, ProtocolId: op.Proto, CounterpartyIds: op.Ids}, "orbiter"
	case "PauseAction":
		return e.Authority, &executortypes.MsgPauseAction{Signer: auth, ActionId: op.Act}, "orbiter"
	case "UnpauseAction":
		return e.Authority, &executortypes.MsgUnpauseAction{Signer: auth, ActionId: op.Act}, "orbiter"
	case "UpdateParams":
		return e.Authority, &adaptertypes.MsgUpdateParams{Signer: auth, Params: adaptertypes.Params{MaxPassthroughPayloadSize: uint32(op.N)}}, "orbiter"
	case "FTFPause":
		return e.Circle, &ftftypes.MsgPause{From: circle}, "env"
	case "FTFUnpause":
		return e.Circle, &ftftypes.MsgUnpause{From: circle}, "env"
	case "Blacklist":
		if a := s.targetAddr(op.Target); a != "" {
			return e.Circle, &ftftypes.MsgBlacklist{From: circle, Address: a}, "env"
		}
	case "Unblacklist":
		if a := s.targetAddr(op.Target); a != "" {
			return e.Circle, &ftftypes.MsgUnblacklist{From: circle, Address: a}, "env"
		}
	case "CCTPPause":
		return e.Circle, &cctptypes.MsgPauseBurningAndMinting{From: circle}, "env"
	case "CCTPUnpause":
		return e.Circle, &cctptypes.MsgUnpauseBurningAndMinting{From: circle}, "env"
	case "CCTPMsgPause":
		return e.Circle, &cctptypes.MsgPauseSendingAndReceivingMessages{From: circle}, "env"
	case "CCTPMsgUnpause":
		return e.Circle, &cctptypes.MsgUnpauseSendingAndReceivingMessages{From: circle}, "env"
	case "BurnLimit":
		return e.Circle, &cctptypes.MsgSetMaxBurnAmountPerMessage{From: circle, LocalToken: DenomUSDC, Amount: sdkmath.NewIntFromUint64(op.N)}, "env"
	case "RemoveMessenger":
		return e.Circle, &cctptypes.MsgRemoveRemoteTokenMessenger{From: circle, DomainId: op.Dom}, "env"
	case "AddMessenger":
		return e.Circle, &cctptypes.MsgAddRemoteTokenMessenger{From: circle, DomainId: op.Dom, Address: pad32(byte(100 + op.Dom))}, "env"
	case "UnrollRouter":
		if tok, ok := e.HypTokens[op.Denom]; ok {
			return e.HypOwner, &warptypes.MsgUnrollRemoteRouter{Owner: e.HypOwner.Addr.String(), TokenId: tok, ReceiverDomain: op.Dom}, "env"
		}
	case "EnrollRouter":
		if tok, ok := e.HypTokens[op.Denom]; ok {
			return e.HypOwner, &warptypes.MsgEnrollRemoteRouter{Owner: e.HypOwner.Addr.String(), TokenId: tok, RemoteRouter: &warptypes.RemoteRouter{ReceiverDomain: op.Dom, ReceiverContract: "0x" + fmt.Sprintf("%064x", op.Dom), Gas: sdkmath.ZeroInt()}}, "env"
		}
	}
	return nil, nil, ""
}

func (s *Sim) execAdmin(op Op) {
	signer, msg, kind := s.buildAdmin(op)
	if msg == nil {
		s.skip(op, "unknown admin message or target")
		return
	}
	msgs := []sdk.Msg{msg}
	if op.Fail {
		// a second message that cannot succeed: baseapp rolls the whole transaction back
		huge, _ := sdkmath.NewIntFromString("1000000000000000000000000000000")
		msgs = append(msgs, &banktypes.MsgSend{FromAddress: signer.Addr.String(), ToAddress: s.Env.Rcpt[0].Addr.String(), Amount: sdk.NewCoins(sdk.NewCoin(DenomStake, huge))})
		s.Stats.Fault("admin_tx_rolled_back")
	}
	gas := uint64(20_000_000)
	if op.Gas != 0 {
		gas = op.Gas
	}
	s.enqueue(&PendingTx{Signer: signer, Gas: gas, Msgs: msgs, Meta: &txMeta{OpID: op.ID, Kind: kind, Op: op}})
}

// predictTokenID asks the node which identifier the next Hyperlane token would get (a simulation
// of the creating message against the committed state).
func (s *Sim) predictTokenID(denom string) (string, bool) {
	ho := s.Env.HypOwner
	res, err := s.N.Simulate(ho, 2_000_000, &warptypes.MsgCreateCollateralToken{Owner: ho.Addr.String(), OriginMailbox: s.Env.HypMailbox, OriginDenom: denom})
	if err != nil || res == nil || len(res.MsgResponses) == 0 {
		return "", false
	}
	var tr warptypes.MsgCreateCollateralTokenResponse
	if err := gogoproto.Unmarshal(res.MsgResponses[0].Value, &tr); err != nil {
		return "", false
	}
	return tr.Id.String(), true
}

// execHypToken: the Hyperlane owner creates a further collateral token for a denomination and enrols
// its routers, in one transaction. Ghost: the transaction (optionally followed by the delivery of an
// in-flight packet) is only *simulated* on the node, as any client does to estimate gas, and never
// delivered: whatever it did must be gone.
func (s *Sim) execHypToken(op Op) {
	if sdk.ValidateDenom(op.Denom) != nil {
		s.skip(op, "bad denom")
		return
	}
	s.flushBlockIfPending()
	ho := s.Env.HypOwner
	hs := ho.Addr.String()
	idStr, ok := s.predictTokenID(op.Denom)
	if !ok {
		s.skip(op, "token creation does not simulate")
		return
	}
	id, err := hyputil.DecodeHexAddress(idStr)
	if err != nil {
		s.skip(op, "bad token id")
		return
	}
	msgs := []sdk.Msg{&warptypes.MsgCreateCollateralToken{Owner: hs, OriginMailbox: s.Env.HypMailbox, OriginDenom: op.Denom}}
	for _, dom := range HypDomains {
		msgs = append(msgs, &warptypes.MsgEnrollRemoteRouter{Owner: hs, TokenId: id, RemoteRouter: &warptypes.RemoteRouter{ReceiverDomain: dom, ReceiverContract: "0x" + fmt.Sprintf("%064x", dom), Gas: sdkmath.ZeroInt()}})
	}
	if !op.Ghost {
		s.enqueue(&PendingTx{Signer: ho, Gas: 20_000_000, Msgs: msgs, Meta: &txMeta{OpID: op.ID, Kind: "env", Op: op}})
		return
	}
	if p := s.byOrigin[op.Ref]; p != nil && p.State == PktInFlight {
		msgs = append(msgs, &channeltypes.MsgRecvPacket{Packet: p.packet(), ProofCommitment: sentinel, ProofHeight: proofHeight, Signer: hs})
	}
	_, err = s.N.Simulate(ho, 50_000_000, msgs...)
	s.Stats.Fault("simulated_tx_discarded")
	s.Stats.Probe("ghost_token_simulated")
	s.logf("ghost: simulated creation of token %s for %s with %d messages (err=%v); nothing of it is committed", idStr, op.Denom, len(msgs), err)
}

// bridgeModules: the module accounts a route's bridge moves coins through.
var bridgeModules = map[string][]string{
	"PROTOCOL_CCTP":      {"cctp", "fiat-tokenfactory"},
	"PROTOCOL_HYPERLANE": {"warp", "hyperlane"},
}

// squatted: the address of a module account holds an account that is not a module account (somebody sent coins
// there before the module first used it); the module's keeper panics from then on.
func (s *Sim) squatted(module string) bool {
	acc := s.N.App.AccountKeeper.GetAccount(s.N.Ctx(), authtypes.NewModuleAddress(module))
	if acc == nil {
		return false
	}
	_, isMod := acc.(sdk.ModuleAccountI)
	return !isMod
}

func (s *Sim) inflightCount() int {
	c := 0
	for _, p := range s.Packets {
		if p.State == PktInFlight {
			c++
		}
	}
	return c
}

// permute reorders txs deterministically from a seed (0 = keep order). Txs of the
// same signer keep their relative order (sequence numbers are assigned at signing).
func permute(txs []*PendingTx, seed uint64) []*PendingTx {
	if seed == 0 || len(txs) < 2 {
		return txs
	}
	r := NewRng(seed)
	idx := make([]int, len(txs))
	for i := range idx {
		idx[i] = i
	}
	for i := len(idx) - 1; i > 0; i-- {
		j := r.Intn(i + 1)
		idx[i], idx[j] = idx[j], idx[i]
	}
	out := make([]*PendingTx, len(txs))
	for i, k := range idx {
		out[i] = txs[k]
	}
	return out
}

func sortedKeys[V any](m map[string]V) []string {
	ks := make([]string, 0, len(m))
	for k := range m {
		ks = append(ks, k)
	}
	sort.Strings(ks)
	return ks
}
