package main

// Twin worlds: shadow executions on throw-away branches of the committed state.
// (filled in by shadow checks; see shadow_checks.go)

type shadowResult struct {
	Variants map[string]*variantResult
}

type variantResult struct {
	Ack     []byte
	Success bool
	Panic   string
	Events  string // digest
	Stores  map[string]string
	Deltas  []string
}
