package main

// Twin worlds: because one seed is one execution, relations between two executions are
// exact. A shadow takes the committed state, branches it, optionally edits the branch
// (remove dust, add dust, add or remove a pause entry, raise the limit, build the stack
// without the orbiter middleware), runs the same packet through the transfer stack under
// IBC core's own rule ("write the cached context only on a successful acknowledgement"),
// and records acknowledgement, events, store digests and ledger deltas. Shadows never
// replace the real delivery, which still goes through real IBC core in the next block.

import (
	"os"
	"fmt"
	"math/big"
	"regexp"
	"runtime/debug"
	"sort"
	"strings"

	"cosmossdk.io/collections"
	sdkmath "cosmossdk.io/math"
	"github.com/circlefin/noble-fiattokenfactory/x/blockibc"
	sdk "github.com/cosmos/cosmos-sdk/types"
	bankkeeper "github.com/cosmos/cosmos-sdk/x/bank/keeper"
	"github.com/cosmos/ibc-go/v8/modules/apps/transfer"
	transfertypes "github.com/cosmos/ibc-go/v8/modules/apps/transfer/types"
	channeltypes "github.com/cosmos/ibc-go/v8/modules/core/04-channel/types"
	porttypes "github.com/cosmos/ibc-go/v8/modules/core/05-port/types"

	"github.com/noble-assets/orbiter/v2/entrypoint"
	adaptertypes "github.com/noble-assets/orbiter/v2/types/component/adapter"
	executortypes "github.com/noble-assets/orbiter/v2/types/component/executor"
	forwardertypes "github.com/noble-assets/orbiter/v2/types/component/forwarder"
)

type shadowResult struct {
	V map[string]*variantResult
}

type variantResult struct {
	Name     string
	Ack      []byte
	Success  bool
	Panic    string
	Events   []string // rendered events, in order
	Stores   map[string]string
	Deltas   []string // ledger differences pre -> post (sorted)
	OrbStore string   // digest of the orbiter store after
	SetupErr string
}

func (s *Sim) stackFull() porttypes.IBCModule {
	m, ok := s.N.App.IBCKeeper.Router.GetRoute("transfer")
	if !ok {
		panic(harnessErr("no transfer route"))
	}
	return m
}

// stackNoOrbiter: what simapp/ibc.go builds, minus the orbiter middleware.
func (s *Sim) stackNoOrbiter() porttypes.IBCModule {
	var st porttypes.IBCModule = transfer.NewIBCModule(s.N.App.TransferKeeper)
	st = blockibc.NewIBCMiddleware(st, s.N.App.FTFKeeper)
	return st
}

// rePtr: ibc-go's transfer module formats a math.Int with %d in one error ("amount must be strictly
// positive: got {824679067200}"), which prints the address of the underlying big.Int. That text reaches
// an event attribute of the ICS-20 application (not of orbiter); it is normalised before comparing.
var rePtr = regexp.MustCompile(`\{[0-9]{6,}\}`)

func normPtr(s string) string { return rePtr.ReplaceAllString(s, "{ptr}") }

// stackOrbiterOnly / stackBare: the orbiter middleware directly around the transfer application, and the
// transfer application alone (no blockibc in front, which in the app's stack rejects some malformed
// data before the orbiter middleware sees it).
func (s *Sim) stackOrbiterOnly() porttypes.IBCModule {
	return entrypoint.NewIBCMiddleware(transfer.NewIBCModule(s.N.App.TransferKeeper), s.N.App.IBCKeeper.ChannelKeeper, s.N.App.OrbiterKeeper.Adapter())
}

func (s *Sim) stackBare() porttypes.IBCModule {
	return transfer.NewIBCModule(s.N.App.TransferKeeper)
}

func renderEvents(evs sdk.Events) []string {
	var out []string
	for _, e := range evs {
		var sb strings.Builder
		sb.WriteString(e.Type)
		for _, a := range e.Attributes {
			sb.WriteString(" " + a.Key + "=" + normPtr(a.Value))
		}
		out = append(out, sb.String())
	}
	return out
}

// setBalance edits the bank balance map on a branch (no send restriction can interfere).
func (s *Sim) setBalance(ctx sdk.Context, addr sdk.AccAddress, denom string, amt sdkmath.Int) {
	bk, ok := s.N.App.BankKeeper.(bankkeeper.BaseKeeper)
	if !ok {
		panic(harnessErr("bank keeper is not a BaseKeeper"))
	}
	if amt.IsZero() {
		_ = bk.Balances.Remove(ctx, collections.Join(addr, denom))
		return
	}
	if err := bk.Balances.Set(ctx, collections.Join(addr, denom), amt); err != nil {
		panic(harnessErr("set balance: %v", err))
	}
}

type shadowEdit func(ctx sdk.Context) error

func (s *Sim) adminOnBranch(ctx sdk.Context, msg sdk.Msg) error {
	h := s.N.App.MsgServiceRouter().Handler(msg)
	if h == nil {
		return fmt.Errorf("no handler for %T", msg)
	}
	_, err := h(ctx, msg)
	return err
}

// runVariant executes cb on a branch of the committed state after applying edit.
func (s *Sim) runVariant(name string, edit shadowEdit, withStores bool, cb func(ctx sdk.Context) (ack []byte, success bool)) *variantResult {
	v := &variantResult{Name: name}
	br := s.N.Branch()
	if edit != nil {
		if err := edit(br); err != nil {
			v.SetupErr = err.Error()
			return v
		}
	}
	pre := s.N.LedgerAt(br)
	cc, write := br.CacheContext()
	cc = cc.WithEventManager(sdk.NewEventManager())
	func() {
		defer func() {
			if r := recover(); r != nil {
				v.Panic = fmt.Sprintf("%v", r)
				if strings.Contains(v.Panic, "out of gas") {
					v.Panic = "out of gas"
				}
				if os.Getenv("VERIF_STACK") != "" {
					fmt.Printf("panic in variant %s: %v\n%s\n", name, r, debug.Stack())
				}
			}
		}()
		v.Ack, v.Success = cb(cc)
	}()
	if v.Panic == "" && v.Success {
		write()
	}
	v.Events = renderEvents(cc.EventManager().Events())
	post := s.N.LedgerAt(br)
	v.Deltas = pre.Diff(post)
	v.OrbStore = digestStore(br.KVStore(s.N.App.GetKey("orbiter")))
	if withStores {
		v.Stores = s.N.StoreDigests(br)
	}
	return v
}

func (s *Sim) recvCB(stack porttypes.IBCModule, pkt channeltypes.Packet, rel sdk.AccAddress) func(ctx sdk.Context) ([]byte, bool) {
	return func(ctx sdk.Context) ([]byte, bool) {
		ack := stack.OnRecvPacket(ctx, pkt, rel)
		if ack == nil {
			return nil, true
		}
		return ack.Acknowledgement(), ack.Success()
	}
}

func hasShadow(prof *Profile, name string) bool {
	for _, x := range prof.Shadows {
		if x == name {
			return true
		}
	}
	return false
}

// runShadows executes the variants the profile asks for, for one packet about to be delivered.
func (s *Sim) runShadows(p *Pkt) *shadowResult {
	if p.State != PktInFlight {
		return nil
	}
	in := s.classify(p)
	res := &shadowResult{V: map[string]*variantResult{}}
	pkt := p.packet()
	rel := s.Env.Relayers[0].Addr
	full := s.stackFull()
	prof := s.Prof
	orb := s.Env.Orbiter
	needStores := hasShadow(prof, "nomw")
	res.V["base"] = s.runVariant("base", nil, needStores, s.recvCB(full, pkt, rel))
	s.Stats.Count("shadow_executions")
	if hasShadow(prof, "nomw") && !in.ToOrbiter {
		res.V["nomw"] = s.runVariant("nomw", nil, true, s.recvCB(s.stackNoOrbiter(), pkt, rel))
		res.V["mwonly"] = s.runVariant("mwonly", nil, true, s.recvCB(s.stackOrbiterOnly(), pkt, rel))
		res.V["bare"] = s.runVariant("bare", nil, true, s.recvCB(s.stackBare(), pkt, rel))
		// any valid ICS-24 identifier may name the counterparty's end of a channel (shadow only: IBC core is bypassed)
		alt := pkt
		alts := []string{"channel-noble-usdc", "solomachine-channel.0", "ch4nnel_77", "channel-18446744073709551615", "abcdefgh", strings.Repeat("c", 64), "07-tendermint-0.chan"}
		alt.SourceChannel = alts[int(p.Seq)%len(alts)]
		res.V["mwonly-altsrc"] = s.runVariant("mwonly-altsrc", nil, true, s.recvCB(s.stackOrbiterOnly(), alt, rel))
		res.V["bare-altsrc"] = s.runVariant("bare-altsrc", nil, true, s.recvCB(s.stackBare(), alt, rel))
		s.Stats.Count("shadow_executions")
		s.Stats.Count("shadow_executions")
		s.Stats.Count("shadow_executions")
		s.Stats.Count("shadow_executions")
		s.Stats.Count("shadow_executions")
	}
	if !in.ToOrbiter {
		return res
	}
	if hasShadow(prof, "nodust") {
		res.V["nodust"] = s.runVariant("nodust", func(ctx sdk.Context) error {
			for _, c := range s.N.App.BankKeeper.GetAllBalances(ctx, orb) {
				s.setBalance(ctx, orb, c.Denom, sdkmath.ZeroInt())
				sink := s.Env.Depositor.Addr
				s.setBalance(ctx, sink, c.Denom, s.N.App.BankKeeper.GetBalance(ctx, sink, c.Denom).Amount.Add(c.Amount))
			}
			return nil
		}, false, s.recvCB(full, pkt, rel))
		s.Stats.Count("shadow_executions")
	}
	if hasShadow(prof, "moredust") {
		res.V["moredust"] = s.runVariant("moredust", func(ctx sdk.Context) error {
			// deterministic extra dust derived from the packet: the transferred denom and two others
			k := int64(p.Seq%7) + 1
			donor := s.Env.Noble[1].Addr
			for i, d := range []string{in.Native, DenomStake, DenomOther, DenomUSDC} {
				if d == "" || sdk.ValidateDenom(d) != nil {
					continue
				}
				amt := sdkmath.NewInt(k * int64(13+i*1000))
				have := s.N.App.BankKeeper.GetBalance(ctx, donor, d).Amount
				if have.LT(amt) {
					continue
				}
				s.setBalance(ctx, donor, d, have.Sub(amt))
				s.setBalance(ctx, orb, d, s.N.App.BankKeeper.GetBalance(ctx, orb, d).Amount.Add(amt))
			}
			if in.Native == DenomHuge && p.Seq%2 == 0 {
				// a prior balance beyond 64 bits, taken from whoever holds that much (supply-neutral: with coins out of
				// thin air the balances of a run could add up to more than a 256-bit integer holds, which no chain can reach)
				big, _ := sdkmath.NewIntFromString("18446744073709551629")
				for _, n := range s.Env.AcctNames {
					a := s.Env.Accts[n].Addr
					if have := s.N.App.BankKeeper.GetBalance(ctx, a, DenomHuge).Amount; have.GTE(big) {
						s.setBalance(ctx, a, DenomHuge, have.Sub(big))
						s.setBalance(ctx, orb, DenomHuge, s.N.App.BankKeeper.GetBalance(ctx, orb, DenomHuge).Amount.Add(big))
						break
					}
				}
			}
			return nil
		}, false, s.recvCB(full, pkt, rel))
		s.Stats.Count("shadow_executions")
	}
	auth := s.Env.Authority.Addr.String()
	if in.Canon && hasShadow(prof, "pausediff") {
		pl := in.Payload
		proto, cp := pl.Proto, pl.Counterparty()
		// (a) relevant entries removed
		res.V["unpaused"] = s.runVariant("unpaused", func(ctx sdk.Context) error {
			if s.Model.PausedProto[proto] {
				if err := s.adminOnBranch(ctx, &forwardertypes.MsgUnpauseProtocol{Signer: auth, ProtocolId: proto}); err != nil {
					return err
				}
			}
			if s.Model.PausedCC[proto+"|"+cp] {
				if err := s.adminOnBranch(ctx, &forwardertypes.MsgUnpauseCrossChains{Signer: auth, ProtocolId: proto, CounterpartyIds: []string{cp}}); err != nil {
					return err
				}
			}
			return nil
		}, false, s.recvCB(full, pkt, rel))
		// (b) one unrelated entry added: another protocol, and another counterparty of the same protocol
		res.V["extrapause"] = s.runVariant("extrapause", func(ctx sdk.Context) error {
			for _, other := range []string{"PROTOCOL_CCTP", "PROTOCOL_HYPERLANE", "PROTOCOL_INTERNAL"} {
				if other != proto && !s.Model.PausedProto[other] {
					if err := s.adminOnBranch(ctx, &forwardertypes.MsgPauseProtocol{Signer: auth, ProtocolId: other}); err != nil {
						return err
					}
					break
				}
			}
			otherCP := "4000000001"
			if proto == "PROTOCOL_INTERNAL" {
				otherCP = "elsewhere"
			}
			if otherCP != cp && !s.Model.PausedCC[proto+"|"+otherCP] {
				if err := s.adminOnBranch(ctx, &forwardertypes.MsgPauseCrossChains{Signer: auth, ProtocolId: proto, CounterpartyIds: []string{otherCP}}); err != nil {
					return err
				}
			}
			// the same counterparty string under another protocol must not matter either
			for _, other := range []string{"PROTOCOL_CCTP", "PROTOCOL_HYPERLANE"} {
				if other != proto && canonDomain(cp) && !s.Model.PausedCC[other+"|"+cp] {
					if err := s.adminOnBranch(ctx, &forwardertypes.MsgPauseCrossChains{Signer: auth, ProtocolId: other, CounterpartyIds: []string{cp}}); err != nil {
						return err
					}
				}
			}
			return nil
		}, false, s.recvCB(full, pkt, rel))
		s.Stats.Count("shadow_executions")
		s.Stats.Count("shadow_executions")
		// (c) short admin histories constructed on the branch: the packet's own destination is paused together with
		// a lexicographically smaller and a larger sibling, then one sibling is unpaused again; the own entry must
		// still be enforced (state reachable by pause/unpause sequences, explored per packet)
		lo, hi := "0", "99"
		if proto == "PROTOCOL_INTERNAL" {
			lo, hi = "a-sibling", "z-sibling"
		}
		if cp != lo && cp != hi && !s.Model.PausedProto[proto] {
			for _, which := range []string{lo, hi} {
				which := which
				name := "pausehistory-unpause-" + map[string]string{lo: "smaller", hi: "larger"}[which]
				res.V[name] = s.runVariant(name, func(ctx sdk.Context) error {
					var ids []string
					for _, id := range []string{lo, cp, hi} {
						if !s.Model.PausedCC[proto+"|"+id] {
							ids = append(ids, id)
						}
					}
					if len(ids) > 0 {
						if err := s.adminOnBranch(ctx, &forwardertypes.MsgPauseCrossChains{Signer: auth, ProtocolId: proto, CounterpartyIds: ids}); err != nil {
							return err
						}
					}
					return s.adminOnBranch(ctx, &forwardertypes.MsgUnpauseCrossChains{Signer: auth, ProtocolId: proto, CounterpartyIds: []string{which}})
				}, false, s.recvCB(full, pkt, rel))
				s.Stats.Count("shadow_executions")
			}
		}
	}
	if in.Canon && hasShadow(prof, "actiondiff") {
		paused := s.Model.PausedAct["ACTION_FEE"]
		res.V["actionflip"] = s.runVariant("actionflip", func(ctx sdk.Context) error {
			if paused {
				return s.adminOnBranch(ctx, &executortypes.MsgUnpauseAction{Signer: auth, ActionId: "ACTION_FEE"})
			}
			return s.adminOnBranch(ctx, &executortypes.MsgPauseAction{Signer: auth, ActionId: "ACTION_FEE"})
		}, false, s.recvCB(full, pkt, rel))
		s.Stats.Count("shadow_executions")
		// the same end states reached through a longer message history on the branch
		pm := &executortypes.MsgPauseAction{Signer: auth, ActionId: "ACTION_FEE"}
		um := &executortypes.MsgUnpauseAction{Signer: auth, ActionId: "ACTION_FEE"}
		res.V["actionhistory-paused"] = s.runVariant("actionhistory-paused", func(ctx sdk.Context) error {
			seq := []sdk.Msg{pm, um, pm}
			if paused {
				seq = []sdk.Msg{um, pm}
			}
			for _, m := range seq {
				if err := s.adminOnBranch(ctx, m); err != nil {
					return err
				}
			}
			return nil
		}, false, s.recvCB(full, pkt, rel))
		res.V["actionhistory-unpaused"] = s.runVariant("actionhistory-unpaused", func(ctx sdk.Context) error {
			seq := []sdk.Msg{pm, um}
			if paused {
				seq = []sdk.Msg{um, pm, um}
			}
			for _, m := range seq {
				if err := s.adminOnBranch(ctx, m); err != nil {
					return err
				}
			}
			return nil
		}, false, s.recvCB(full, pkt, rel))
		s.Stats.Count("shadow_executions")
		s.Stats.Count("shadow_executions")
		// another action is paused and unpaused again on the branch: the set is what it was
		otherPaused := s.Model.PausedAct["ACTION_SWAP"]
		res.V["actionhistory-other"] = s.runVariant("actionhistory-other", func(ctx sdk.Context) error {
			po := &executortypes.MsgPauseAction{Signer: auth, ActionId: "ACTION_SWAP"}
			uo := &executortypes.MsgUnpauseAction{Signer: auth, ActionId: "ACTION_SWAP"}
			seq := []sdk.Msg{po, uo}
			if otherPaused {
				seq = []sdk.Msg{uo, po}
			}
			for _, m := range seq {
				if err := s.adminOnBranch(ctx, m); err != nil {
					return err
				}
			}
			return nil
		}, false, s.recvCB(full, pkt, rel))
		s.Stats.Count("shadow_executions")
	}
	if in.Canon && hasShadow(prof, "limitup") {
		res.V["limitup"] = s.runVariant("limitup", func(ctx sdk.Context) error {
			return s.adminOnBranch(ctx, &adaptertypes.MsgUpdateParams{Signer: auth, Params: adaptertypes.Params{MaxPassthroughPayloadSize: 4294967295}})
		}, false, s.recvCB(full, pkt, rel))
		s.Stats.Count("shadow_executions")
		// the boundary, per packet: limit set (on the branch) to exactly the passthrough length, and to one less
		n := uint32(len(in.Payload.Passthrough))
		res.V["limitexact"] = s.runVariant("limitexact", func(ctx sdk.Context) error {
			// first away from the target value, so that the last value set is what must be in force
			if err := s.adminOnBranch(ctx, &adaptertypes.MsgUpdateParams{Signer: auth, Params: adaptertypes.Params{MaxPassthroughPayloadSize: n + 7}}); err != nil {
				return err
			}
			return s.adminOnBranch(ctx, &adaptertypes.MsgUpdateParams{Signer: auth, Params: adaptertypes.Params{MaxPassthroughPayloadSize: n}})
		}, false, s.recvCB(full, pkt, rel))
		s.Stats.Count("shadow_executions")
		if n > 0 {
			// the same transfer without its passthrough payload, limit raised: the payload is opaque, so within the
			// limit its mere size must not change the outcome
			q := *in.Payload
			q.Passthrough, q.PTNull = []byte{}, false
			alt := pkt
			alt.Data = transfertypes.NewFungibleTokenPacketData(in.D.Denom, in.D.Amount, in.D.Sender, in.D.Receiver, q.Canonical()).GetBytes()
			res.V["limitup-nopassthrough"] = s.runVariant("limitup-nopassthrough", func(ctx sdk.Context) error {
				return s.adminOnBranch(ctx, &adaptertypes.MsgUpdateParams{Signer: auth, Params: adaptertypes.Params{MaxPassthroughPayloadSize: 4294967295}})
			}, false, s.recvCB(full, alt, rel))
			s.Stats.Count("shadow_executions")
			res.V["limitminus"] = s.runVariant("limitminus", func(ctx sdk.Context) error {
				if err := s.adminOnBranch(ctx, &adaptertypes.MsgUpdateParams{Signer: auth, Params: adaptertypes.Params{MaxPassthroughPayloadSize: n + 7}}); err != nil {
					return err
				}
				return s.adminOnBranch(ctx, &adaptertypes.MsgUpdateParams{Signer: auth, Params: adaptertypes.Params{MaxPassthroughPayloadSize: n - 1}})
			}, false, s.recvCB(full, pkt, rel))
			s.Stats.Count("shadow_executions")
		}
	}
	return res
}

func sameStrs(a, b []string) bool {
	if len(a) != len(b) {
		return false
	}
	for i := range a {
		if a[i] != b[i] {
			return false
		}
	}
	return true
}

func firstDiff(a, b []string) string {
	n := len(a)
	if len(b) < n {
		n = len(b)
	}
	for i := 0; i < n; i++ {
		if a[i] != b[i] {
			// show the neighbourhood of the first differing byte
			k := 0
			for k < len(a[i]) && k < len(b[i]) && a[i][k] == b[i][k] {
				k++
			}
			lo := k - 60
			if lo < 0 {
				lo = 0
			}
			cut := func(s string) string {
				hi := k + 100
				if hi > len(s) {
					hi = len(s)
				}
				if lo > len(s) {
					return ""
				}
				return s[lo:hi]
			}
			return fmt.Sprintf("#%d differs at byte %d: ...%q vs ...%q", i, k, cut(a[i]), cut(b[i]))
		}
	}
	return fmt.Sprintf("lengths %d vs %d", len(a), len(b))
}

// deltasExcept filters ledger delta lines that concern the given account names.
func deltasExcept(d []string, addrs ...string) []string {
	var out []string
	for _, l := range d {
		skip := false
		for _, a := range addrs {
			if strings.HasPrefix(l, a+"/") {
				skip = true
			}
		}
		if !skip {
			out = append(out, l)
		}
	}
	return out
}

// relDeltas turns "addr/denom: a -> b" lines into "addr/denom: +d" (so that twins that start
// from different absolute balances can be compared).
func relDeltas(d []string) []string {
	var out []string
	for _, l := range d {
		i := strings.Index(l, ": ")
		j := strings.Index(l, " -> ")
		if i < 0 || j < 0 {
			out = append(out, l)
			continue
		}
		a, ok1 := new(big.Int).SetString(l[i+2:j], 10)
		b, ok2 := new(big.Int).SetString(l[j+4:], 10)
		if !ok1 || !ok2 {
			out = append(out, l)
			continue
		}
		out = append(out, l[:i]+": "+signed(new(big.Int).Sub(b, a)))
	}
	sort.Strings(out)
	return out
}

func bridgeEvents(evs []string) []string {
	var out []string
	for _, e := range evs {
		if strings.HasPrefix(e, "circle.cctp.") || strings.HasPrefix(e, "hyperlane.") || strings.HasPrefix(e, "noble.orbiter.") {
			out = append(out, e)
		}
	}
	return out
}

// c07Differential: not addressed to the orbiter => exactly the wrapped application (acknowledgement or panic,
// events, state). Also called for deliveries whose transaction was aborted by a panic.
func (s *Sim) c07Differential(p *Pkt, in *PktInfo, sh *shadowResult, base *variantResult) {
	// ---- C07: not addressed to the orbiter => exactly the wrapped application
	if nm := sh.V["nomw"]; nm != nil && !in.ToOrbiter {
		s.Stats.Count("rule:C07.differential")
		cls := "ics20"
		if !in.ICS {
			cls = "non-ics20"
		}
		if string(nm.Ack) != string(base.Ack) || nm.Panic != base.Panic {
			s.violate("C07", "same-as-without-middleware", "ack-differs class="+cls, fmt.Sprintf("packet op=%d receiver %q: with middleware %.200s%s / without %.200s%s", p.Origin, in.D.Receiver, base.Ack, panicHead(base.Panic), nm.Ack, panicHead(nm.Panic)))
		}
		if !sameStrs(nm.Events, base.Events) {
			s.violate("C07", "same-as-without-middleware", "events-differ class="+cls, fmt.Sprintf("packet op=%d: %s", p.Origin, firstDiff(base.Events, nm.Events)))
		}
		for _, name := range sortedKeys(nm.Stores) {
			if nm.Stores[name] != base.Stores[name] {
				s.violate("C07", "same-as-without-middleware", "state-differs store="+name, fmt.Sprintf("packet op=%d: store %s %s (with) vs %s (without)", p.Origin, name, base.Stores[name], nm.Stores[name]))
			}
		}
		if base.OrbStore != s.orbDigestNow() {
			s.violate("C07", "orbiter-state-untouched", "orbiter-store-changed", fmt.Sprintf("packet op=%d", p.Origin))
		}
		// the same relation at the level of the middleware itself: orbiter(transfer) vs transfer alone
		for _, pair := range [][2]string{{"mwonly", "bare"}, {"mwonly-altsrc", "bare-altsrc"}} {
			mw, bare := sh.V[pair[0]], sh.V[pair[1]]
			if mw == nil || bare == nil {
				continue
			}
			if pair[0] == "mwonly-altsrc" {
				cls += " src-channel=non-channel-N"
			}
			s.Stats.Count("rule:C07.differential-middleware-level")
			if string(mw.Ack) != string(bare.Ack) || mw.Panic != bare.Panic {
				s.violate("C07", "same-as-wrapped-application-alone", "ack-differs class="+cls, fmt.Sprintf("packet op=%d data=%.200q: orbiter(transfer) %.200s%s / transfer alone %.200s%s", p.Origin, string(p.Data), mw.Ack, panicHead(mw.Panic), bare.Ack, panicHead(bare.Panic)))
			}
			if !sameStrs(mw.Events, bare.Events) {
				s.violate("C07", "same-as-wrapped-application-alone", "events-differ class="+cls, fmt.Sprintf("packet op=%d: %s", p.Origin, firstDiff(mw.Events, bare.Events)))
			}
			for _, name := range sortedKeys(bare.Stores) {
				if bare.Stores[name] != mw.Stores[name] {
					s.violate("C07", "same-as-wrapped-application-alone", "state-differs store="+name, fmt.Sprintf("packet op=%d: store %s", p.Origin, name))
				}
			}
		}
	}
}

func panicHead(x string) string {
	if len(x) > 120 {
		x = x[:120]
	}
	return oneLine(x)
}

// checkShadow compares the variants (called when the real delivery is observed).
func (s *Sim) checkShadow(m *txMeta, p *Pkt, in *PktInfo, mo *MsgObs, ack AckInfo, sh *shadowResult) {
	base := sh.V["base"]
	if base == nil {
		return
	}
	model := m.ModelAtShadow // the model as it was when the shadows ran (pre-block state)
	if model == nil {
		model = s.Model
	}
	for _, name := range sortedKeys(sh.V) {
		v := sh.V[name]
		if v.SetupErr != "" {
			// the set-up applies, on a branch of the committed state, an authority message that the model says is
			// valid right now (pause what is not paused, unpause what is paused, raise the limit): a refusal means the
			// chain's answer does not follow from its committed state (e.g. state kept outside the store)
			prop := map[string]string{"actionflip": "C09", "unpaused": "C08", "extrapause": "C08", "limitup": "C18", "pausehistory-unpause-smaller": "C08", "pausehistory-unpause-larger": "C08", "limitexact": "C18", "limitminus": "C18", "limitup-nopassthrough": "C18", "actionhistory-paused": "C09", "actionhistory-unpaused": "C09", "actionhistory-other": "C09"}[v.Name]
			if prop == "" {
				panic(harnessErr("shadow %s set-up failed for packet op=%d: %s", v.Name, p.Origin, v.SetupErr))
			}
			s.violate(prop, "message-semantics", "valid-authority-message-refused-on-branch variant="+v.Name, fmt.Sprintf("before packet op=%d: on a branch of the committed state a message the model holds valid was refused: %.300s", p.Origin, v.SetupErr))
			delete(sh.V, name)
			continue
		}
		if v.Panic != "" && in.ToOrbiter {
			// (a packet that is not for the orbiter and makes the wrapped application panic is C07's business:
			// with and without the middleware it must panic alike)
			fp := "shadow: " + oneLine(v.Panic)
			if strings.Contains(v.Panic, "is not a module account") {
				fp = "module-address-holds-a-plain-account (shadow)"
			}
			s.violate("C14", "U1-no-panic", fp, fmt.Sprintf("packet op=%d panicked in shadow variant %s: %.300s", p.Origin, v.Name, v.Panic))
		}
	}
	orbS, dustS := s.Env.Orbiter.String(), s.Env.Dust.String()
	// harness self-check: the real delivery of a packet that was alone and first in its block agrees with its shadow
	if m.soleInBlock && !m.GasCut && base.Panic == "" && string(base.Ack) != string(ack.Bytes) && len(s.Viol) == 0 {
		panic(harnessErr("real delivery and base shadow disagree for packet op=%d:\n real:   %s\n shadow: %s", p.Origin, ack.Bytes, base.Ack))
	}
	s.c07Differential(p, in, sh, base)
	if !in.ToOrbiter {
		return
	}
	// ---- C11: independence from coins already on the orbiter account
	for _, name := range []string{"nodust", "moredust"} {
		v := sh.V[name]
		if v == nil {
			continue
		}
		s.Stats.Count("rule:C11.differential")
		// an error acknowledgement's text may name whichever step failed first; what must not
		// depend on the prior balance is success/refusal (and the bytes of a success)
		if v.Success != base.Success || (v.Success && string(v.Ack) != string(base.Ack)) {
			fp := "ack-differs variant=" + name
			if m.DustBlacklistedAtShadow && in.Native == DenomUSDC {
				fp += " env=dust-collector-blacklisted-by-token-issuer"
			}
			fp += s.igpTagDeltas(base, v)
			s.violate("C11", "independent-of-prior-balance", fp, fmt.Sprintf("packet op=%d: as is %.200s / %s %.200s", p.Origin, base.Ack, name, v.Ack))
			continue
		}
		if !v.Success {
			continue
		}
		a := relDeltas(deltasExcept(base.Deltas, orbS, dustS))
		b := relDeltas(deltasExcept(v.Deltas, orbS, dustS))
		if !sameStrs(a, b) {
			s.violate("C11", "independent-of-prior-balance", "deltas-differ variant="+name, fmt.Sprintf("packet op=%d: %s", p.Origin, firstDiff(a, b)))
		}
		if !sameStrs(bridgeEvents(base.Events), bridgeEvents(v.Events)) {
			s.violate("C11", "independent-of-prior-balance", "bridge-request-differs variant="+name, fmt.Sprintf("packet op=%d: %s", p.Origin, firstDiff(bridgeEvents(base.Events), bridgeEvents(v.Events))))
		}
		if base.OrbStore != v.OrbStore {
			s.violate("C11", "independent-of-prior-balance", "statistics-differ variant="+name, fmt.Sprintf("packet op=%d", p.Origin))
		}
		// after a success the orbiter account keeps only what it held in *other* denoms
		if v.Success && name == "moredust" {
			s.Stats.Probe("shadow_with_extra_dust_succeeded")
		}
	}
	if !in.Canon {
		return
	}
	pl := in.Payload
	// ---- C08: others unaffected / enforcement decided by the twin
	if v := sh.V["extrapause"]; v != nil {
		s.Stats.Count("rule:C08.unrelated-pause")
		if string(v.Ack) != string(base.Ack) || !sameStrs(relDeltas(v.Deltas), relDeltas(base.Deltas)) {
			s.violate("C08", "others-unaffected", "unrelated-pause-changed-outcome route="+pl.Proto, fmt.Sprintf("packet op=%d to %s/%s: as is %.160s / with unrelated pause entries %.160s", p.Origin, pl.Proto, pl.Counterparty(), base.Ack, v.Ack))
		}
	}
	for _, name := range []string{"pausehistory-unpause-smaller", "pausehistory-unpause-larger"} {
		if v := sh.V[name]; v != nil {
			s.Stats.Count("rule:C08.branch-history")
			if v.Success {
				s.violate("C08", "enforcement", "accepted-while-destination-paused after "+name, fmt.Sprintf("packet op=%d to %s/%s: on a branch its destination was paused together with two siblings and one sibling unpaused again; the transfer was still forwarded", p.Origin, pl.Proto, pl.Counterparty()))
			}
			if len(v.Deltas) > 0 && !v.Success {
				s.violate("C08", "enforcement", "refused-with-effects", fmt.Sprintf("packet op=%d", p.Origin))
			}
		}
	}
	if v := sh.V["unpaused"]; v != nil {
		s.Stats.Count("rule:C08.twin-unpaused")
		paused := model.IsPaused(pl.Proto, pl.Counterparty())
		if paused && base.Success {
			s.violate("C08", "enforcement", "accepted-while-destination-paused (shadow)", fmt.Sprintf("packet op=%d to %s/%s", p.Origin, pl.Proto, pl.Counterparty()))
		}
		if !paused && (string(v.Ack) != string(base.Ack)) {
			panic(harnessErr("unpaused twin differs although nothing was removed (packet op=%d)", p.Origin))
		}
		if paused && !base.Success && v.Success {
			s.Stats.Probe("pause_was_the_only_reason_for_refusal")
		}
	}
	// ---- C09
	if v := sh.V["actionflip"]; v != nil {
		s.Stats.Count("rule:C09.twin")
		paused := model.PausedAct["ACTION_FEE"]
		if !pl.HasFee {
			if string(v.Ack) != string(base.Ack) || !sameStrs(relDeltas(v.Deltas), relDeltas(base.Deltas)) || v.OrbStore == "" {
				s.violate("C09", "payloads-without-action-unaffected", "fee-pause-changed-feeless-transfer", fmt.Sprintf("packet op=%d: as is %.160s / flipped %.160s", p.Origin, base.Ack, v.Ack))
			}
		} else {
			pausedRun, other := base, v
			if !paused {
				pausedRun, other = v, base
			}
			if pausedRun.Success {
				s.violate("C09", "enforcement", "accepted-while-action-paused (shadow)", fmt.Sprintf("packet op=%d", p.Origin))
			}
			if len(pausedRun.Deltas) > 0 {
				s.violate("C09", "enforcement", "paused-action-had-effects", fmt.Sprintf("packet op=%d: %v", p.Origin, pausedRun.Deltas))
			}
			_ = other
		}
	}
	if hp, hu := sh.V["actionhistory-paused"], sh.V["actionhistory-unpaused"]; hp != nil && hu != nil && sh.V["actionflip"] != nil {
		s.Stats.Count("rule:C09.branch-history")
		paused := model.PausedAct["ACTION_FEE"]
		asPaused, asUnpaused := base, sh.V["actionflip"]
		if !paused {
			asPaused, asUnpaused = sh.V["actionflip"], base
		}
		if pl.HasFee && hp.Success {
			s.violate("C09", "enforcement", "accepted-while-action-paused after a pause/unpause/pause history", fmt.Sprintf("packet op=%d", p.Origin))
		}
		if string(hp.Ack) != string(asPaused.Ack) && hp.Success != asPaused.Success {
			s.violate("C09", "state-depends-only-on-current-set", "paused-via-history-differs-from-paused", fmt.Sprintf("packet op=%d: %.120s vs %.120s", p.Origin, hp.Ack, asPaused.Ack))
		}
		if hu.Success != asUnpaused.Success || (hu.Success && !sameStrs(relDeltas(hu.Deltas), relDeltas(asUnpaused.Deltas))) {
			s.violate("C09", "state-depends-only-on-current-set", "unpaused-via-history-differs-from-unpaused", fmt.Sprintf("packet op=%d: %.120s vs %.120s", p.Origin, hu.Ack, asUnpaused.Ack))
		}
	}
	if ho := sh.V["actionhistory-other"]; ho != nil && pl.Swap == nil {
		s.Stats.Count("rule:C09.branch-history-other-action")
		if ho.Success != base.Success || string(ho.Ack) != string(base.Ack) || !sameStrs(relDeltas(ho.Deltas), relDeltas(base.Deltas)) {
			fp := "pause-and-unpause-of-another-action-changed-the-transfer"
			if pl.HasFee && model.PausedAct["ACTION_FEE"] && ho.Success {
				fp = "accepted-while-action-paused after another action was paused and unpaused"
			}
			s.violate("C09", "state-depends-only-on-current-set", fp, fmt.Sprintf("packet op=%d: as is %.160s / after pausing and unpausing ACTION_SWAP %.160s", p.Origin, base.Ack, ho.Ack))
		}
	}
	// ---- C18: refused here and accepted with the limit raised => the limit was the reason => must be over
	if v := sh.V["limitup"]; v != nil {
		s.Stats.Count("rule:C18.twin")
		over := uint64(len(pl.Passthrough)) > model.Limit
		if !base.Success && v.Success && !over {
			s.violate("C18", "within-limit-never-refused-for-size", "refused-only-because-of-limit", fmt.Sprintf("packet op=%d: passthrough %d bytes, limit %d: refused as is (%.200s) but accepted with the limit raised", p.Origin, len(pl.Passthrough), model.Limit, base.Ack))
		}
		if over && base.Success {
			s.violate("C18", "enforcement", "accepted-while-passthrough-over-limit (shadow)", fmt.Sprintf("packet op=%d: %d > %d", p.Origin, len(pl.Passthrough), model.Limit))
		}
		if over && !base.Success && len(base.Deltas) > 0 {
			s.violate("C18", "enforcement", "refused-with-effects", fmt.Sprintf("packet op=%d", p.Origin))
		}
		if over && !base.Success && v.Success {
			s.Stats.Probe("limit_was_the_only_reason_for_refusal")
		}
		if !over && base.Success != v.Success {
			s.Stats.Probe("limit_twin_differs_within_limit")
		}
		if ex := sh.V["limitexact"]; ex != nil {
			s.Stats.Count("rule:C18.branch-boundary")
			if ex.Success != v.Success {
				s.violate("C18", "within-limit-never-refused-for-size", "limit-equal-to-length-behaves-differently-from-unlimited", fmt.Sprintf("packet op=%d: passthrough %d bytes: with the limit set to exactly that %.120s, with the limit raised %.120s", p.Origin, len(pl.Passthrough), ex.Ack, v.Ack))
			}
		}
		if np := sh.V["limitup-nopassthrough"]; np != nil {
			s.Stats.Count("rule:C18.size-is-immaterial-within-limit")
			if np.Success && !v.Success {
				s.violate("C18", "within-limit-never-refused-for-size", "refused-with-the-limit-raised-but-accepted-without-the-payload", fmt.Sprintf("packet op=%d: passthrough %d bytes: refused even with the limit at its maximum (%.160s) while the same transfer without a passthrough payload is accepted", p.Origin, len(pl.Passthrough), v.Ack))
			}
		}
		if mi := sh.V["limitminus"]; mi != nil {
			s.Stats.Count("rule:C18.branch-boundary")
			if mi.Success {
				s.violate("C18", "enforcement", "accepted-with-limit-one-below-length", fmt.Sprintf("packet op=%d: passthrough %d bytes accepted although the limit was last set to %d", p.Origin, len(pl.Passthrough), len(pl.Passthrough)-1))
			}
		}
	}
}

func (s *Sim) orbDigestNow() string { return s.orbDigest }
