package main

// Coordinator and workers. One OS process per worker (the application uses process-global
// registries and each simulation is single-threaded); the coordinator derives every
// worker's seeds from VERIF_SEED, gathers their reports, re-plays every reported
// violation in a fresh process, applies the known-findings list and writes the evidence.

import (
	"encoding/json"
	"runtime/pprof"
	"sync/atomic"
	"fmt"
	"os"
	"os/exec"
	"path/filepath"
	"runtime"
	"sort"
	"strconv"
	"strings"
	"sync"
	"time"
)

type ReplayFile struct {
	Property    string      `json:"property"`
	Rule        string      `json:"rule"`
	Fingerprint string      `json:"fingerprint"`
	Detail      string      `json:"detail"`
	Seed        uint64      `json:"seed"`
	Profile     string      `json:"profile"`
	Tier        string      `json:"tier"`
	Mode        string      `json:"mode"` // sim | modeb | special
	Trace       []Op        `json:"trace"`
	Extra       any         `json:"extra,omitempty"`
	OrigOps     int         `json:"original_ops"`
	MinOps      int         `json:"minimised_ops"`
	ShrinkTrial int         `json:"shrink_trials"`
	ShrinkDone  bool        `json:"shrink_converged"`
	EventLog    []string    `json:"event_log"`
	AllViol     []Violation `json:"violations_in_minimised_run"`
}

type WorkerReport struct {
	Worker     int            `json:"worker"`
	Seeds      []uint64       `json:"seeds"`
	Runs       int            `json:"runs"`
	WallS      float64        `json:"wall_s"`
	Blocks     int            `json:"blocks"`
	Txs        int            `json:"txs"`
	Events     int            `json:"events"`
	Ops        int            `json:"ops"`
	SimSeconds int64          `json:"sim_seconds"`
	Counts     map[string]int `json:"counts"`
	Faults     map[string]int `json:"faults"`
	Probes     map[string]int `json:"probes"`
	States     []string       `json:"states"`
	Grams      []string       `json:"grams"`
	Replays    []string       `json:"replays"` // paths of replay files written
	Foreign    map[string]int `json:"foreign"` // violations of other properties seen (informational)
	HarnessErr string         `json:"harness_error,omitempty"`
	Samples    []any          `json:"samples"`
	NonTrivialRuns int        `json:"nontrivial_runs"`
}

func envU64(name string, def uint64) uint64 {
	if v := os.Getenv(name); v != "" {
		if x, err := strconv.ParseUint(v, 10, 64); err == nil {
			return x
		}
		// accept negative or huge ints by hashing the text
		var h uint64 = 1469598103934665603
		for i := 0; i < len(v); i++ {
			h ^= uint64(v[i])
			h *= 1099511628211
		}
		return h
	}
	return def
}

func replayDir() string {
	d := os.Getenv("VERIF_REPLAY_DIR")
	if d == "" {
		d = "/verif/replays"
	}
	os.MkdirAll(d, 0o755)
	return d
}

type tierCfg struct {
	Workers     int
	RunsPerW    int
	ShrinkSec   int
	MaxReplays  int // per worker
}

func tierFor(prop, tier string) tierCfg {
	w := runtime.NumCPU()
	if w > 16 {
		w = 16
	}
	if v := os.Getenv("VERIF_WORKERS"); v != "" {
		if x, err := strconv.Atoi(v); err == nil && x > 0 {
			w = x
		}
	}
	c := tierCfg{Workers: w, RunsPerW: 100, ShrinkSec: 40, MaxReplays: 3}
	if tier == "thorough" {
		c.RunsPerW, c.ShrinkSec, c.MaxReplays = 1000, 120, 4
	}
	if f := tierScale[prop]; f > 0 {
		c.RunsPerW = int(float64(c.RunsPerW) * f)
	}
	if v := os.Getenv("VERIF_RUNS"); v != "" {
		if x, err := strconv.Atoi(v); err == nil && x > 0 {
			c.RunsPerW = x
		}
	}
	return c
}

// tierScale: shadow-heavy checks run fewer, heavier runs.
var tierScale = map[string]float64{}

// ---------------- worker ----------------

func workerMain(prop, tier string, worker int, baseSeed uint64, out string) int {
	prof := profileFor(prop)
	tc := tierFor(prop, tier)
	curTier = tier
	rep := &WorkerReport{Worker: worker, Counts: map[string]int{}, Faults: map[string]int{}, Probes: map[string]int{}, Foreign: map[string]int{}}
	t0 := time.Now()
	states, grams := map[string]bool{}, map[string]bool{}
	seenKeys := map[string]bool{}
	known := loadKnown()
	unknownReplays := 0
	exit := 0
	// watchdog: a single run that does not finish is harness trouble (exit 2), never a violation
	var curSeed atomic.Uint64
	var curStart atomic.Int64
	var curLimit atomic.Int64 // seconds allowed for the phase in progress (one run, or one minimisation with its own budget)
	curLimit.Store(150)
	go func() {
		for {
			time.Sleep(time.Second)
			st := curStart.Load()
			lim := time.Duration(curLimit.Load()) * time.Second
			if st != 0 && time.Since(time.Unix(0, st)) > lim {
				fmt.Fprintf(os.Stderr, "WATCHDOG: run with seed %d (or the minimisation of one of its violations) did not finish within %v\n", curSeed.Load(), lim)
				pprof.Lookup("goroutine").WriteTo(os.Stderr, 2)
				rep.HarnessErr = fmt.Sprintf("watchdog: run with seed %d did not finish within %v", curSeed.Load(), lim)
				writeJSON(out, rep)
				os.Exit(2)
			}
		}
	}()
	for i := 0; i < tc.RunsPerW; i++ {
		seed := NewRng(baseSeed ^ uint64(worker)*0x9e3779b97f4a7c15).Derive(uint64(i)).U64()
		rep.Seeds = append(rep.Seeds, seed)
		curSeed.Store(seed)
		curLimit.Store(150)
		curStart.Store(time.Now().UnixNano())
		res := runOne(prof, seed)
		curStart.Store(0)
		rep.Runs++
		if res.Stats != nil {
			mergeStats(rep, res.Stats, states, grams)
			if ownRuleEvaluated(prof, res.Stats) {
				rep.NonTrivialRuns++
			}
		}
		rep.Ops += len(res.Trace)
		if len(rep.Samples) < 2 && res.Stats != nil && (ownRuleEvaluated(prof, res.Stats) || i == tc.RunsPerW-1) {
			sample := map[string]any{"seed": res.Seed, "ops": len(res.Trace), "first_ops": headOps(res.Trace, 12), "event_trace_excerpt": excerpt(res.Log, 14)}
			if res.Extra != nil {
				sample["scenario"] = res.Extra
			}
			rep.Samples = append(rep.Samples, sample)
		}
		if res.HarnessErr != "" {
			rep.HarnessErr = fmt.Sprintf("seed %d: %s", seed, res.HarnessErr)
			exit = 2
			break
		}
		for _, v := range res.Viol {
			if !prof.Own[v.Prop] {
				rep.Foreign[v.Prop+"/"+v.Rule]++
				continue
			}
			if seenKeys[v.Key()] {
				continue
			}
			// open known findings are replayed once per worker and do not use up the budget for new violations
			if matchKnown(known, v.Prop, v.Rule, v.FP) == nil {
				if unknownReplays >= tc.MaxReplays {
					continue
				}
				unknownReplays++
			}
			seenKeys[v.Key()] = true
			curLimit.Store(int64(tc.ShrinkSec) + 150) // its own budget plus one trial that may just have started
			curStart.Store(time.Now().UnixNano())
			rf := minimise(prof, res, v, time.Duration(tc.ShrinkSec)*time.Second)
			curStart.Store(0)
			rf.Tier = tier
			path := filepath.Join(replayDir(), fmt.Sprintf("%s-%s-%d.json", prop, fpSlug(v.Rule+"-"+v.FP), seed))
			writeJSON(path, rf)
			rep.Replays = append(rep.Replays, path)
		}
	}
	curStart.Store(0)
	for k := range states {
		rep.States = append(rep.States, k)
	}
	for k := range grams {
		rep.Grams = append(rep.Grams, k)
	}
	sort.Strings(rep.States)
	sort.Strings(rep.Grams)
	rep.WallS = time.Since(t0).Seconds()
	writeJSON(out, rep)
	return exit
}

// runOne dispatches on the kind of check (plain simulation, mode B enumeration, ...).
func runOne(prof *Profile, seed uint64) *RunResult {
	if prof.Special != nil && (prof.SpecialEvery <= 1 || seed%uint64(prof.SpecialEvery) == 0) {
		return prof.Special(prof, seed)
	}
	return runGenerate(prof, seed, false)
}

func ownRuleEvaluated(prof *Profile, st *RunStats) bool {
	for k, v := range st.Counts {
		if v > 0 && strings.HasPrefix(k, "rule:") {
			for p := range prof.Own {
				if strings.HasPrefix(k, "rule:"+p) {
					return true
				}
			}
		}
	}
	for _, extra := range prof.NonTrivialCounters {
		if st.Counts[extra] > 0 {
			return true
		}
	}
	return false
}

func headOps(t []Op, n int) []Op {
	if len(t) > n {
		t = t[:n]
	}
	out := make([]Op, len(t))
	for i, o := range t {
		if len(o.Memo) > 160 {
			o.Memo = o.Memo[:160] + "..."
		}
		if len(o.Raw) > 80 {
			o.Raw = o.Raw[:80] + "..."
		}
		if len(o.Ids) > 6 {
			o.Ids = append(append([]string{}, o.Ids[:6]...), "...")
		}
		out[i] = o
	}
	return out
}

func excerpt(log []string, n int) []string {
	var out []string
	for _, l := range log {
		if len(l) > 260 {
			l = l[:260] + "..."
		}
		out = append(out, l)
		if len(out) >= n {
			break
		}
	}
	return out
}

func mergeStats(rep *WorkerReport, st *RunStats, states, grams map[string]bool) {
	rep.Blocks += st.Blocks
	rep.Txs += st.Txs
	rep.Events += st.Events
	rep.SimSeconds += st.SimSeconds
	for k, v := range st.Counts {
		rep.Counts[k] += v
	}
	for k, v := range st.Faults {
		rep.Faults[k] += v
	}
	for k, v := range st.Probes {
		rep.Probes[k] += v
	}
	for k := range st.States {
		states[k] = true
	}
	for k := range st.Grams {
		grams[k] = true
	}
}

func fpSlug(s string) string {
	var b strings.Builder
	for _, c := range strings.ToLower(s) {
		switch {
		case c >= 'a' && c <= 'z', c >= '0' && c <= '9':
			b.WriteRune(c)
		default:
			if b.Len() > 0 && !strings.HasSuffix(b.String(), "-") {
				b.WriteByte('-')
			}
		}
		if b.Len() > 60 {
			break
		}
	}
	return strings.Trim(b.String(), "-")
}

func writeJSON(path string, v any) {
	bz, err := json.MarshalIndent(v, "", " ")
	if err != nil {
		panic(err)
	}
	if err := os.WriteFile(path, bz, 0o644); err != nil {
		panic(err)
	}
}

// ---------------- minimisation ----------------

func hasKey(vs []Violation, key string) *Violation {
	for i := range vs {
		if vs[i].Key() == key {
			return &vs[i]
		}
	}
	return nil
}

// minimise shrinks the trace by delta debugging while the same violation (property,
// rule, fingerprint) persists.
func minimise(prof *Profile, res *RunResult, v Violation, budget time.Duration) *ReplayFile {
	key := v.Key()
	rf := &ReplayFile{Property: v.Prop, Rule: v.Rule, Fingerprint: v.FP, Detail: v.Detail, Seed: res.Seed, Profile: prof.Name, Mode: "sim", OrigOps: len(res.Trace)}
	if res.Extra != nil {
		// special checks carry their own replay payload and are not shrunk here
		rf.Mode, rf.Extra, rf.Trace, rf.EventLog, rf.AllViol, rf.MinOps, rf.ShrinkDone = "special", res.Extra, res.Trace, tail(res.Log, 60), res.Viol, len(res.Trace), true
		return rf
	}
	deadline := time.Now().Add(budget)
	cur := append([]Op(nil), res.Trace...)
	trials := 0
	judge := func(t []Op) *RunResult {
		if prof.TraceCheck != nil {
			return prof.TraceCheck(prof, t)
		}
		return runReplay(prof, t, false)
	}
	test := func(t []Op) bool {
		trials++
		r := judge(t)
		return r.HarnessErr == "" && hasKey(r.Viol, key) != nil
	}
	// the recorded trace itself must reproduce (determinism of replay); otherwise report unshrunk
	if !test(cur) {
		rf.Trace, rf.MinOps, rf.EventLog, rf.AllViol = cur, len(cur), tail(res.Log, 60), res.Viol
		rf.Detail += " [note: recorded trace did not reproduce in-process]"
		return rf
	}
	n := 2
	converged := false
	for len(cur) >= 2 {
		if time.Now().After(deadline) {
			break
		}
		chunk := (len(cur) + n - 1) / n
		reduced := false
		for i := 0; i < len(cur); i += chunk {
			if time.Now().After(deadline) {
				break
			}
			j := i + chunk
			if j > len(cur) {
				j = len(cur)
			}
			cand := append(append([]Op(nil), cur[:i]...), cur[j:]...)
			if len(cand) > 0 && test(cand) {
				cur = cand
				if n > 2 {
					n--
				}
				reduced = true
				break
			}
		}
		if !reduced {
			if chunk == 1 {
				converged = true
				break
			}
			n *= 2
			if n > len(cur) {
				n = len(cur)
			}
		}
	}
	final := judge(cur)
	rf.Trace, rf.MinOps, rf.ShrinkTrial, rf.ShrinkDone = cur, len(cur), trials, converged
	rf.EventLog, rf.AllViol = tail(final.Log, 80), final.Viol
	if vv := hasKey(final.Viol, key); vv != nil {
		rf.Detail = vv.Detail
	}
	return rf
}

// ---------------- replay ----------------

func replayMain(path string, verbose bool) int {
	bz, err := os.ReadFile(path)
	if err != nil {
		fmt.Println("cannot read replay file:", err)
		return 2
	}
	var rf ReplayFile
	if err := json.Unmarshal(bz, &rf); err != nil {
		fmt.Println("cannot parse replay file:", err)
		return 2
	}
	prof := profileFor(rf.Profile)
	var res *RunResult
	if rf.Mode == "special" {
		if prof.SpecialReplay == nil {
			fmt.Println("profile has no special replay")
			return 2
		}
		res = prof.SpecialReplay(prof, &rf)
	} else if prof.TraceCheck != nil {
		res = prof.TraceCheck(prof, rf.Trace)
	} else {
		res = runReplay(prof, rf.Trace, verbose)
	}
	if res.HarnessErr != "" {
		fmt.Println("HARNESS ERROR during replay:", res.HarnessErr)
		return 2
	}
	key := rf.Property + "/" + rf.Rule + "/" + rf.Fingerprint
	if v := hasKey(res.Viol, key); v != nil {
		fmt.Printf("REPRODUCED property=%s rule=%s fingerprint=%q\n  %s\n", v.Prop, v.Rule, v.FP, v.Detail)
		return 1
	}
	fmt.Printf("NOT REPRODUCED (%d other violations)\n", len(res.Viol))
	for _, v := range res.Viol {
		fmt.Printf("  other: %s %s [%s]\n", v.Prop, v.Rule, v.FP)
	}
	return 0
}

// ---------------- known findings ----------------

type KnownFinding struct {
	Property string `json:"property"`
	Rule     string `json:"rule,omitempty"`          // exact rule, or empty = any
	FPPrefix string `json:"fingerprint_prefix"`      // prefix of the violation fingerprint
	Status   string `json:"status"`                  // open | fixed
	Commit   string `json:"commit,omitempty"`        // for fixed
	What     string `json:"what"`
}

func loadKnown() []KnownFinding {
	bz, err := os.ReadFile("/verif/known_findings.json")
	if err != nil {
		return nil
	}
	var f struct {
		Findings []KnownFinding `json:"findings"`
	}
	if json.Unmarshal(bz, &f) != nil {
		fmt.Println("warning: known_findings.json does not parse")
		return nil
	}
	return f.Findings
}

func matchKnown(k []KnownFinding, prop, rule, fp string) *KnownFinding {
	for i := range k {
		f := &k[i]
		if f.Status != "open" || f.Property != prop {
			continue
		}
		if f.Rule != "" && f.Rule != rule {
			continue
		}
		if strings.HasPrefix(fp, f.FPPrefix) {
			return f
		}
	}
	return nil
}

// ---------------- coordinator ----------------

func checkMain(prop, tier string) int {
	t0 := time.Now()
	seed := envU64("VERIF_SEED", 20260926)
	tc := tierFor(prop, tier)
	prof := profileFor(prop)
	tmp, err := os.MkdirTemp("", "orbsim-"+prop+"-")
	if err != nil {
		fmt.Println(err)
		return 2
	}
	defer os.RemoveAll(tmp)
	fmt.Printf("check %s tier=%s VERIF_SEED=%d workers=%d runs/worker=%d\n", prop, tier, seed, tc.Workers, tc.RunsPerW)
	self, _ := os.Executable()
	var wg sync.WaitGroup
	codes := make([]int, tc.Workers)
	outs := make([]string, tc.Workers)
	timeout := 25 * time.Minute
	if tier == "thorough" {
		timeout = 5 * time.Hour
	}
	for w := 0; w < tc.Workers; w++ {
		wg.Add(1)
		go func(w int) {
			defer wg.Done()
			out := filepath.Join(tmp, fmt.Sprintf("worker-%d.json", w))
			outs[w] = out
			cmd := exec.Command(self, "worker", "-prop", prop, "-tier", tier, "-worker", strconv.Itoa(w), "-seed", strconv.FormatUint(seed, 10), "-out", out)
			cmd.Env = append(os.Environ(), "GOMAXPROCS=2")
			logf, _ := os.Create(filepath.Join(tmp, fmt.Sprintf("worker-%d.log", w)))
			cmd.Stdout, cmd.Stderr = logf, logf
			done := make(chan error, 1)
			if err := cmd.Start(); err != nil {
				codes[w] = 2
				return
			}
			go func() { done <- cmd.Wait() }()
			select {
			case err := <-done:
				if err != nil {
					if ee, ok := err.(*exec.ExitError); ok {
						codes[w] = ee.ExitCode()
					} else {
						codes[w] = 2
					}
				}
			case <-time.After(timeout):
				cmd.Process.Kill()
				codes[w] = 3
			}
			logf.Close()
		}(w)
	}
	wg.Wait()
	// gather
	agg := &WorkerReport{Counts: map[string]int{}, Faults: map[string]int{}, Probes: map[string]int{}, Foreign: map[string]int{}}
	states, grams := map[string]bool{}, map[string]bool{}
	trouble := ""
	for w := 0; w < tc.Workers; w++ {
		var r WorkerReport
		bz, err := os.ReadFile(outs[w])
		if err != nil || json.Unmarshal(bz, &r) != nil {
			lg, _ := os.ReadFile(filepath.Join(tmp, fmt.Sprintf("worker-%d.log", w)))
			trouble = fmt.Sprintf("worker %d produced no report (exit %d): %.2000s", w, codes[w], tailStr(string(lg), 2000))
			continue
		}
		if r.HarnessErr != "" {
			trouble = fmt.Sprintf("worker %d: %s", w, r.HarnessErr)
		}
		agg.Runs += r.Runs
		agg.Blocks += r.Blocks
		agg.Txs += r.Txs
		agg.Events += r.Events
		agg.Ops += r.Ops
		agg.SimSeconds += r.SimSeconds
		agg.NonTrivialRuns += r.NonTrivialRuns
		for k, v := range r.Counts {
			agg.Counts[k] += v
		}
		for k, v := range r.Faults {
			agg.Faults[k] += v
		}
		for k, v := range r.Probes {
			agg.Probes[k] += v
		}
		for k, v := range r.Foreign {
			agg.Foreign[k] += v
		}
		for _, s := range r.States {
			states[s] = true
		}
		for _, g := range r.Grams {
			grams[g] = true
		}
		agg.Replays = append(agg.Replays, r.Replays...)
		if len(agg.Samples) < 3 {
			agg.Samples = append(agg.Samples, r.Samples...)
		}
		if len(agg.Seeds) < 8 {
			agg.Seeds = append(agg.Seeds, r.Seeds[:min(2, len(r.Seeds))]...)
		}
	}
	// replay every reported violation in a fresh process; apply known findings
	known := loadKnown()
	sort.Strings(agg.Replays)
	violations, knownHits := 0, 0
	var lines []string
	reported := map[string]bool{}
	for _, path := range agg.Replays {
		var rf ReplayFile
		bz, err := os.ReadFile(path)
		if err != nil || json.Unmarshal(bz, &rf) != nil {
			trouble = "unreadable replay file " + path
			continue
		}
		key := rf.Property + "/" + rf.Rule + "/" + rf.Fingerprint
		cmd := exec.Command(self, "replay", "-file", path)
		out, err := cmd.CombinedOutput()
		code := 0
		if ee, ok := err.(*exec.ExitError); ok {
			code = ee.ExitCode()
		} else if err != nil {
			code = 2
		}
		switch code {
		case 1:
			if kf := matchKnown(known, rf.Property, rf.Rule, rf.Fingerprint); kf != nil {
				if !reported["K"+kf.FPPrefix+kf.Rule] {
					lines = append(lines, fmt.Sprintf("KNOWN-FINDING: property=%s %s (rule %s, fingerprint %q, replay %s)", rf.Property, kf.What, rf.Rule, rf.Fingerprint, path))
					reported["K"+kf.FPPrefix+kf.Rule] = true
				}
				knownHits++
				continue
			}
			if reported[key] {
				continue
			}
			reported[key] = true
			violations++
			lines = append(lines, fmt.Sprintf("VIOLATION property=%s replay=%s", rf.Property, path))
			lines = append(lines, fmt.Sprintf("  rule=%s fingerprint=%q seed=%d ops=%d (from %d) %.300s", rf.Rule, rf.Fingerprint, rf.Seed, rf.MinOps, rf.OrigOps, rf.Detail))
		case 0:
			trouble = fmt.Sprintf("NONDETERMINISTIC: violation %s (seed %d) did not reproduce in a fresh process: %s", key, rf.Seed, path)
		default:
			trouble = fmt.Sprintf("replay of %s failed: %.500s", path, string(out))
		}
	}
	wall := time.Since(t0).Seconds()
	writeEvidence(prop, tier, seed, prof, agg, len(states), len(grams), violations, knownHits, wall, tc)
	for _, l := range lines {
		fmt.Println(l)
	}
	fmt.Printf("%s %s: runs=%d blocks=%d txs=%d sim_seconds=%d states=%d interleavings=%d violations=%d known=%d wall=%.1fs runs/hour=%.0f\n", prop, tier, agg.Runs, agg.Blocks, agg.Txs, agg.SimSeconds, len(states), len(grams), violations, knownHits, wall, float64(agg.Runs)/wall*3600)
	if len(agg.Foreign) > 0 {
		fmt.Printf("note: violations of other properties seen during these runs (reported by their own checks): %v\n", agg.Foreign)
	}
	if trouble != "" {
		fmt.Println("TROUBLE:", trouble)
	}
	if violations > 0 {
		return 1 // reproduced violations take precedence over harness trouble in other runs
	}
	if trouble != "" {
		return 2
	}
	return 0
}

func tailStr(s string, n int) string {
	if len(s) > n {
		return s[len(s)-n:]
	}
	return s
}

func writeEvidence(prop, tier string, seed uint64, prof *Profile, agg *WorkerReport, nStates, nGrams, violations, known int, wall float64, tc tierCfg) {
	evDir := os.Getenv("VERIF_EVIDENCE_DIR")
	if evDir == "" {
		evDir = "/verif/evidence"
	}
	os.MkdirAll(evDir, 0o755)
	level := prof.Level
	if level == "" {
		level = "exploration"
	}
	own := map[string]int{}
	for k, v := range agg.Counts {
		if strings.HasPrefix(k, "rule:") {
			own[k] = v
		}
	}
	distinct := nStates
	if prof.DistinctFrom != "" {
		distinct = agg.Counts[prof.DistinctFrom]
	}
	ev := map[string]any{
		"property_id": prop,
		"tier":        tier,
		"seed":        int64(seed % (1 << 62)),
		"level":       level,
		"wall_s":      wall,
		"violations":  violations,
		"coverage": map[string]any{
			"evaluations":         agg.Runs,
			"distinct_nontrivial": distinct,
			"rule":                prof.EvidenceRule,
			"samples":             nonNilSamples(agg.Samples),
			"runs_where_own_rule_evaluated": agg.NonTrivialRuns,
			"runs_per_hour":       float64(agg.Runs) / wall * 3600,
			"simulated_seconds":   agg.SimSeconds,
			"blocks":              agg.Blocks,
			"transactions":        agg.Txs,
			"abci_events":         agg.Events,
			"generated_ops":       agg.Ops,
			"workers":             tc.Workers,
			"runs_per_worker":     tc.RunsPerW,
			"first_seeds":         agg.Seeds,
			"fault_kinds_fired":   agg.Faults,
			"probes":              agg.Probes,
			"distinct_abstract_states_at_delivery": nStates,
			"distinct_interleaving_4grams":         nGrams,
			"rule_evaluations":    own,
			"packets_and_outcomes": filterPrefix(agg.Counts, "delivered:", "class:", "packets_sent", "byz_packets", "refused", "accepted"),
			"other_counters":      filterNotPrefix(agg.Counts, "delivered:", "class:", "packets_sent", "byz_packets", "refused", "accepted", "rule:"),
			"known_findings_hit":  known,
			"violations_of_other_properties_seen": agg.Foreign,
			"real_components":     realComponents,
			"stub_components":     stubComponents,
		},
		"assumptions": append([]string{
			"sampling, not enumeration: a clean batch is evidence, not proof",
			"counterparty chains are the B ends of channel pairs over ibc-go's 09-localhost client inside the same state machine (real IBC core and ICS-20, no light-client proofs)",
			"CometBFT is replaced by the scheduler calling ABCI (InitChain/FinalizeBlock/Commit) directly; restarts happen at block boundaries only",
		}, prof.Assumptions...),
	}
	writeJSON(filepath.Join(evDir, prop+".json"), ev)
}

var realComponents = []string{"orbiter (entrypoint, keeper, components, controllers, msg/query servers, genesis) from the repo working tree", "simapp wiring (app.yaml, ibc.go, depinject)", "baseapp runTx (ante, gas metering, panic recovery, message rollback)", "IAVL stores over MemDB", "ibc-go v8.6.1 core + ICS-20 + 09-localhost client", "blockibc, fiat-tokenfactory, CCTP, Hyperlane core + warp, bank, auth"}
var stubComponents = []string{"CometBFT consensus / mempool / p2p (the scheduler calls ABCI)", "relayers, users, admins, attackers (simulator actors)", "remote chains' consensus (their ledgers are real ICS-20 state on the B ends)", "CCTP/Hyperlane destination chains (observed: the message committed on Noble)", "disk (MemDB; restart keeps only committed state)"}

func filterPrefix(m map[string]int, pre ...string) map[string]int {
	out := map[string]int{}
	for k, v := range m {
		for _, p := range pre {
			if strings.HasPrefix(k, p) {
				out[k] = v
			}
		}
	}
	return out
}

func filterNotPrefix(m map[string]int, pre ...string) map[string]int {
	out := map[string]int{}
	for k, v := range m {
		skip := false
		for _, p := range pre {
			if strings.HasPrefix(k, p) {
				skip = true
			}
		}
		if !skip {
			out[k] = v
		}
	}
	return out
}

func nonNilSamples(s []any) []any {
	if s == nil {
		return []any{}
	}
	return s
}
