package main

// Observation: everything the oracles know about a transaction is read from what the
// chain committed or returned — tx results, ABCI events, acknowledgement bytes, bank
// state — never from inside orbiter.

import (
	"encoding/hex"
	"encoding/json"
	"fmt"
	"math/big"
	"sort"
	"strconv"
	"strings"

	abci "github.com/cometbft/cometbft/abci/types"
	sdk "github.com/cosmos/cosmos-sdk/types"
)

type Flow struct {
	From, To string
	Denom    string
	Amt      *big.Int
}

// MsgObs holds the events of one message of a transaction and what they imply for the bank.
type MsgObs struct {
	Events []abci.Event
	Delta  map[string]map[string]*big.Int // addr -> denom -> net change
	Supply map[string]*big.Int            // denom -> net supply change
	Flows  []Flow                         // bank "transfer" events, in order
	Burns  []Flow                         // From = burner
	Mints  []Flow                         // To = minter
}

type TxObs struct {
	Code      uint32
	Codespace string
	Log       string
	GasUsed   int64
	Msgs      map[int]*MsgObs // by msg_index; -1 = events without index (ante)
}

func attrs(e abci.Event) map[string]string {
	m := map[string]string{}
	for _, a := range e.Attributes {
		m[a.Key] = a.Value
	}
	return m
}

func newMsgObs() *MsgObs {
	return &MsgObs{Delta: map[string]map[string]*big.Int{}, Supply: map[string]*big.Int{}}
}

func (m *MsgObs) add(addr, denom string, v *big.Int) {
	if m.Delta[addr] == nil {
		m.Delta[addr] = map[string]*big.Int{}
	}
	if m.Delta[addr][denom] == nil {
		m.Delta[addr][denom] = new(big.Int)
	}
	m.Delta[addr][denom].Add(m.Delta[addr][denom], v)
}

func (m *MsgObs) addSupply(denom string, v *big.Int) {
	if m.Supply[denom] == nil {
		m.Supply[denom] = new(big.Int)
	}
	m.Supply[denom].Add(m.Supply[denom], v)
}

// Net returns the net delta of addr in denom.
func (m *MsgObs) Net(addr, denom string) *big.Int {
	if d, ok := m.Delta[addr]; ok {
		if v, ok := d[denom]; ok {
			return v
		}
	}
	return new(big.Int)
}

func parseCoins(s string) sdk.Coins {
	if s == "" {
		return nil
	}
	c, err := sdk.ParseCoinsNormalized(s)
	if err != nil {
		panic(harnessErr("cannot parse coins in bank event: %q: %v", s, err))
	}
	return c
}

func observeTx(r *abci.ExecTxResult) *TxObs {
	t := &TxObs{Code: r.Code, Codespace: r.Codespace, Log: r.Log, GasUsed: r.GasUsed, Msgs: map[int]*MsgObs{}}
	for _, e := range r.Events {
		a := attrs(e)
		idx := -1
		if s, ok := a["msg_index"]; ok {
			if v, err := strconv.Atoi(s); err == nil {
				idx = v
			}
		}
		m := t.Msgs[idx]
		if m == nil {
			m = newMsgObs()
			t.Msgs[idx] = m
		}
		m.Events = append(m.Events, e)
		switch e.Type {
		case "coin_spent":
			for _, c := range parseCoins(a["amount"]) {
				m.add(a["spender"], c.Denom, new(big.Int).Neg(c.Amount.BigInt()))
			}
		case "coin_received":
			for _, c := range parseCoins(a["amount"]) {
				m.add(a["receiver"], c.Denom, c.Amount.BigInt())
			}
		case "transfer":
			for _, c := range parseCoins(a["amount"]) {
				m.Flows = append(m.Flows, Flow{From: a["sender"], To: a["recipient"], Denom: c.Denom, Amt: c.Amount.BigInt()})
			}
		case "coinbase":
			for _, c := range parseCoins(a["amount"]) {
				m.addSupply(c.Denom, c.Amount.BigInt())
				m.Mints = append(m.Mints, Flow{To: a["minter"], Denom: c.Denom, Amt: c.Amount.BigInt()})
			}
		case "burn":
			for _, c := range parseCoins(a["amount"]) {
				m.addSupply(c.Denom, new(big.Int).Neg(c.Amount.BigInt()))
				m.Burns = append(m.Burns, Flow{From: a["burner"], Denom: c.Denom, Amt: c.Amount.BigInt()})
			}
		}
	}
	return t
}

// msgIdxs returns the message indexes in order (excluding -1).
func (t *TxObs) msgIdxs() []int {
	var ks []int
	for k := range t.Msgs {
		if k >= 0 {
			ks = append(ks, k)
		}
	}
	sort.Ints(ks)
	return ks
}

func (m *MsgObs) find(typ string) []map[string]string {
	var out []map[string]string
	for _, e := range m.Events {
		if e.Type == typ {
			out = append(out, attrs(e))
		}
	}
	return out
}

// IsPanic reports baseapp's recovered-panic error (sdkerrors.ErrPanic: codespace "undefined", code 111222).
func (t *TxObs) IsPanic() bool { return t.Code == 111222 }

// IsOutOfGas: sdkerrors.ErrOutOfGas (codespace "sdk", code 11).
func (t *TxObs) IsOutOfGas() bool { return t.Code == 11 && t.Codespace == "sdk" }

// panicFingerprint extracts a stable description of a recovered panic from the tx log:
// the panic value's first line and the innermost orbiter frame.
func panicFingerprint(log string) string {
	first := log
	if i := strings.Index(first, "\n"); i >= 0 {
		first = first[:i]
	}
	first = strings.TrimPrefix(first, "recovered: ")
	if len(first) > 90 {
		first = first[:90]
	}
	frame := ""
	for _, ln := range strings.Split(log, "\n") {
		ln = strings.TrimSpace(ln)
		if strings.HasPrefix(ln, "github.com/noble-assets/orbiter/v2") && !strings.Contains(ln, "/simapp") {
			f := ln
			if i := strings.LastIndex(f, "("); i >= 0 {
				f = f[:i] // drop the argument list, keep the receiver type and the method
			}
			frame = strings.TrimPrefix(f, "github.com/noble-assets/orbiter/v2/")
			break
		}
	}
	if strings.Contains(log, "is not a module account") {
		// the address of a module account was taken by a plain account (coins sent there before the module's first
		// use): the fingerprint names the cause instead of the address
		return "module-address-holds-a-plain-account @ " + frame
	}
	return first + " @ " + frame
}

// Ack decoding.
type AckInfo struct {
	Present bool
	Bytes   []byte
	Success bool
	Error   string
}

func decodeAck(bz []byte) AckInfo {
	a := AckInfo{Present: true, Bytes: bz}
	var j struct {
		Result *string `json:"result"`
		Error  *string `json:"error"`
	}
	if err := json.Unmarshal(bz, &j); err != nil {
		return a
	}
	if j.Result != nil {
		a.Success = true
	}
	if j.Error != nil {
		a.Error = *j.Error
	}
	return a
}

func hexOf(a map[string]string, key string) []byte {
	if v, ok := a[key+"_hex"]; ok {
		b, err := hex.DecodeString(v)
		if err == nil {
			return b
		}
	}
	return []byte(a[key])
}

type harnessError struct{ msg string }

func (h harnessError) Error() string { return h.msg }

func harnessErr(f string, a ...any) harnessError { return harnessError{fmt.Sprintf(f, a...)} }
