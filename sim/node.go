package main

// Node: the ABCI driver around the real application. The simulator is the consensus
// engine (it decides block contents, header time and height), the mempool and the
// operator (restart = throw the app object away and rebuild it over the same DB).

import (
	"bytes"
	"crypto/sha256"
	"encoding/hex"
	"fmt"
	"sort"
	"time"

	sdkmath "cosmossdk.io/math"
	storetypes "cosmossdk.io/store/types"
	abci "github.com/cometbft/cometbft/abci/types"
	cmtproto "github.com/cometbft/cometbft/proto/tendermint/types"
	cmttypes "github.com/cometbft/cometbft/types"
	dbm "github.com/cosmos/cosmos-db"
	"github.com/cosmos/cosmos-sdk/client"
	"github.com/cosmos/cosmos-sdk/client/tx"
	"github.com/cosmos/cosmos-sdk/codec"
	sdk "github.com/cosmos/cosmos-sdk/types"
	"github.com/cosmos/cosmos-sdk/types/tx/signing"
	authsigning "github.com/cosmos/cosmos-sdk/x/auth/signing"
	authtx "github.com/cosmos/cosmos-sdk/x/auth/tx"

	"github.com/noble-assets/orbiter/v2/simapp"
)

type PendingTx struct {
	Signer *Account
	Gas    uint64
	Msgs   []sdk.Msg
	Meta   any // oracle bookkeeping, opaque to the node
}

type Node struct {
	Env    *Env
	db     *dbm.MemDB
	App    *simapp.SimApp
	TxCfg  client.TxConfig
	Cdc    codec.Codec
	valSet *cmttypes.ValidatorSet
	Height int64
	now    time.Time
	Boots  int
	// AppHashes per height (for replay comparison)
	LastAppHash []byte
	// hook called after NewSimApp (mode B swaps the route here)
	OnBoot func(n *Node)
	modeB  *ModeB
	// fault: crash between FinalizeBlock and Commit of the next block
	CrashBeforeCommit bool
	CrashDiff         string
}

// diffFinalize describes the first difference between two executions of the same block ("" = identical).
func diffFinalize(a, b *abci.ResponseFinalizeBlock) string {
	if !bytes.Equal(a.AppHash, b.AppHash) {
		return fmt.Sprintf("app hash %x vs %x", a.AppHash, b.AppHash)
	}
	if len(a.TxResults) != len(b.TxResults) {
		return "number of tx results"
	}
	for i := range a.TxResults {
		x, y := a.TxResults[i], b.TxResults[i]
		if x.Code != y.Code || x.Codespace != y.Codespace || x.GasUsed != y.GasUsed || !bytes.Equal(x.Data, y.Data) {
			return fmt.Sprintf("tx %d: code/gas/data %d/%s/%d vs %d/%s/%d", i, x.Code, x.Codespace, x.GasUsed, y.Code, y.Codespace, y.GasUsed)
		}
		if eventsDigest(x.Events) != eventsDigest(y.Events) {
			return fmt.Sprintf("tx %d: events", i)
		}
	}
	return ""
}

func (n *Node) Boot() {
	n.App = newApp(n.db)
	n.Cdc = n.App.OrbiterKeeper.Codec()
	n.TxCfg = authtx.NewTxConfig(n.Cdc, authtx.DefaultSignModes)
	n.Boots++
	if n.OnBoot != nil {
		n.OnBoot(n)
	}
}

// Restart drops the app object; only what was committed to the DB survives.
func (n *Node) Restart() { n.Boot() }

func (n *Node) Now() time.Time { return n.now }

// Ctx returns a context over the committed state (reads see the last commit; writes
// through it go straight to the working state of the next block — used only by the
// byzantine-chain actor and never by oracles).
func (n *Node) Ctx() sdk.Context {
	return n.App.NewUncachedContext(false, cmtproto.Header{Height: n.Height + 1, ChainID: ChainID, Time: n.now}).
		WithEventManager(sdk.NewEventManager())
}

// Branch returns a throw-away branch of the committed state.
func (n *Node) Branch() sdk.Context {
	c, _ := n.Ctx().CacheContext()
	return c.WithEventManager(sdk.NewEventManager()).WithGasMeter(storetypes.NewInfiniteGasMeter())
}

func (n *Node) accountNumSeq(ctx sdk.Context, a *Account) (uint64, uint64) {
	acc := n.App.AccountKeeper.GetAccount(ctx, a.Addr)
	if acc == nil {
		panic("unknown account " + a.Name)
	}
	return acc.GetAccountNumber(), acc.GetSequence()
}

func (n *Node) sign(a *Account, accNum, seq, gas uint64, msgs ...sdk.Msg) []byte {
	b := n.TxCfg.NewTxBuilder()
	if err := b.SetMsgs(msgs...); err != nil {
		panic(err)
	}
	b.SetGasLimit(gas)
	sig := signing.SignatureV2{PubKey: a.Key.PubKey(), Data: &signing.SingleSignatureData{SignMode: signing.SignMode_SIGN_MODE_DIRECT}, Sequence: seq}
	if err := b.SetSignatures(sig); err != nil {
		panic(err)
	}
	sd := authsigning.SignerData{ChainID: ChainID, AccountNumber: accNum, Sequence: seq, PubKey: a.Key.PubKey(), Address: a.Addr.String()}
	s2, err := tx.SignWithPrivKey(sdk.Context{}.Context(), signing.SignMode_SIGN_MODE_DIRECT, sd, b, a.Key, n.TxCfg, seq)
	if err != nil {
		panic(err)
	}
	if err := b.SetSignatures(s2); err != nil {
		panic(err)
	}
	bz, err := n.TxCfg.TxEncoder()(b.GetTx())
	if err != nil {
		panic(err)
	}
	return bz
}

// Block signs the pending txs (sequence numbers are read from the committed state,
// plus the number of earlier txs of the same signer in this block), executes and commits.
func (n *Node) Block(txs []*PendingTx, dt time.Duration) *abci.ResponseFinalizeBlock {
	ctx := n.Ctx()
	used := map[string]uint64{}
	raw := make([][]byte, 0, len(txs))
	for _, t := range txs {
		num, seq := n.accountNumSeq(ctx, t.Signer)
		seq += used[t.Signer.Name]
		used[t.Signer.Name]++
		raw = append(raw, n.sign(t.Signer, num, seq, t.Gas, t.Msgs...))
	}
	n.Height++
	n.now = n.now.Add(dt)
	req := &abci.RequestFinalizeBlock{Height: n.Height, Time: n.now, Txs: raw, NextValidatorsHash: n.valSet.Hash()}
	res, err := n.App.FinalizeBlock(req)
	if err != nil {
		panic(fmt.Sprintf("FinalizeBlock: %v", err))
	}
	n.CrashDiff = ""
	if n.CrashBeforeCommit {
		// the process dies after executing the block and before committing it: nothing of the execution is
		// durable; after the restart consensus hands the same block to the application again
		n.CrashBeforeCommit = false
		first := res
		n.Boot()
		res, err = n.App.FinalizeBlock(req)
		if err != nil {
			panic(fmt.Sprintf("FinalizeBlock after crash: %v", err))
		}
		n.CrashDiff = diffFinalize(first, res)
	}
	if _, err := n.App.Commit(); err != nil {
		panic(fmt.Sprintf("Commit: %v", err))
	}
	n.LastAppHash = res.AppHash
	return res
}

// Simulate runs a transaction the way a node serves a gas estimation: against the last committed
// state, on a branch that is discarded. Nothing of it may survive.
func (n *Node) Simulate(signer *Account, gas uint64, msgs ...sdk.Msg) (*sdk.Result, error) {
	num, seq := n.accountNumSeq(n.Ctx(), signer)
	_, res, err := n.App.Simulate(n.sign(signer, num, seq, gas, msgs...))
	return res, err
}

// SimulateForged: a gas estimation of a transaction whose messages name `named` as signer while the transaction is
// signed with `forger`'s key (account number and sequence are public). Simulation skips signature verification.
func (n *Node) SimulateForged(forger, named *Account, gas uint64, msgs ...sdk.Msg) (*sdk.Result, error) {
	num, seq := n.accountNumSeq(n.Ctx(), named)
	_, res, err := n.App.Simulate(n.sign(forger, num, seq, gas, msgs...))
	return res, err
}

func (n *Node) mustBlock() { n.Block(nil, 5*time.Second) }

func (n *Node) mustTxs(txs []*PendingTx) *abci.ResponseFinalizeBlock {
	res := n.Block(txs, 5*time.Second)
	for i, r := range res.TxResults {
		if r.Code != 0 {
			panic(fmt.Sprintf("setup tx %d (%T) failed: code %d: %s", i, txs[i].Msgs[0], r.Code, r.Log))
		}
	}
	return res
}

// ---- state observation ------------------------------------------------------

// Ledger is a full snapshot of the bank module: balances and supply.
type Ledger struct {
	Bal    map[string]map[string]sdkmath.Int // addr -> denom -> amount
	Supply map[string]sdkmath.Int
}

func (n *Node) LedgerAt(ctx sdk.Context) *Ledger {
	l := &Ledger{Bal: map[string]map[string]sdkmath.Int{}, Supply: map[string]sdkmath.Int{}}
	n.App.BankKeeper.IterateAllBalances(ctx, func(a sdk.AccAddress, c sdk.Coin) bool {
		k := a.String()
		if l.Bal[k] == nil {
			l.Bal[k] = map[string]sdkmath.Int{}
		}
		l.Bal[k][c.Denom] = c.Amount
		return false
	})
	n.App.BankKeeper.IterateTotalSupply(ctx, func(c sdk.Coin) bool {
		l.Supply[c.Denom] = c.Amount
		return false
	})
	return l
}

func (l *Ledger) Get(addr, denom string) sdkmath.Int {
	if m, ok := l.Bal[addr]; ok {
		if v, ok := m[denom]; ok {
			return v
		}
	}
	return sdkmath.ZeroInt()
}

func (l *Ledger) Clone() *Ledger {
	c := &Ledger{Bal: map[string]map[string]sdkmath.Int{}, Supply: map[string]sdkmath.Int{}}
	for a, m := range l.Bal {
		c.Bal[a] = map[string]sdkmath.Int{}
		for d, v := range m {
			c.Bal[a][d] = v
		}
	}
	for d, v := range l.Supply {
		c.Supply[d] = v
	}
	return c
}

// Diff lists "addr/denom: a -> b" for every difference (sorted).
func (l *Ledger) Diff(o *Ledger) []string {
	var out []string
	seen := map[string]bool{}
	chk := func(a, d string) {
		k := a + "/" + d
		if seen[k] {
			return
		}
		seen[k] = true
		x, y := l.Get(a, d), o.Get(a, d)
		if !x.Equal(y) {
			out = append(out, fmt.Sprintf("%s: %s -> %s", k, x, y))
		}
	}
	for a, m := range l.Bal {
		for d := range m {
			chk(a, d)
		}
	}
	for a, m := range o.Bal {
		for d := range m {
			chk(a, d)
		}
	}
	sup := map[string]bool{}
	for d := range l.Supply {
		sup[d] = true
	}
	for d := range o.Supply {
		sup[d] = true
	}
	for d := range sup {
		x, ok1 := l.Supply[d]
		y, ok2 := o.Supply[d]
		if !ok1 {
			x = sdkmath.ZeroInt()
		}
		if !ok2 {
			y = sdkmath.ZeroInt()
		}
		if !x.Equal(y) {
			out = append(out, fmt.Sprintf("supply/%s: %s -> %s", d, x, y))
		}
	}
	sort.Strings(out)
	return out
}

// StoreDigests hashes every KV store of the application (name -> "count:hash").
func (n *Node) StoreDigests(ctx sdk.Context) map[string]string {
	out := map[string]string{}
	for _, k := range n.App.GetStoreKeys() {
		kv, ok := k.(*storetypes.KVStoreKey)
		if !ok {
			continue
		}
		out[kv.Name()] = digestStore(ctx.KVStore(kv))
	}
	return out
}

func digestStore(st storetypes.KVStore) string {
	h := sha256.New()
	it := st.Iterator(nil, nil)
	defer it.Close()
	cnt := 0
	var lb [8]byte
	for ; it.Valid(); it.Next() {
		k, v := it.Key(), it.Value()
		putLen(&lb, len(k))
		h.Write(lb[:])
		h.Write(k)
		putLen(&lb, len(v))
		h.Write(lb[:])
		h.Write(v)
		cnt++
	}
	return fmt.Sprintf("%d:%s", cnt, hex.EncodeToString(h.Sum(nil))[:16])
}

func putLen(b *[8]byte, n int) {
	for i := 0; i < 8; i++ {
		b[i] = byte(n >> (8 * i))
	}
}

// DumpStore returns the raw content of one store as "hexkey=hexvalue\n" lines.
func (n *Node) DumpStore(ctx sdk.Context, name string) []byte {
	var b bytes.Buffer
	it := ctx.KVStore(n.App.GetKey(name)).Iterator(nil, nil)
	defer it.Close()
	for ; it.Valid(); it.Next() {
		fmt.Fprintf(&b, "%x=%x\n", it.Key(), it.Value())
	}
	return b.Bytes()
}

// AppStores are the stores rule U2 speaks about (block housekeeping touches ibc, acc, staking).
var AppStores = []string{"bank", "orbiter", "transfer", "fiattokenfactory", "cctp", "hyperlane", "warp"}
