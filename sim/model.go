package main

// Reference model. No Cosmos types inside except the bech32 decoder used to decide
// "does this receiver string denote the orbiter account" and big integers.
// The model is deliberately partial: it only concludes something for *canonical*
// payloads (byte-identical to the model's own serialisation of what it parsed);
// everything else is subject to the unconditional rules only.

import (
	"bytes"
	"encoding/base64"
	"encoding/json"
	"fmt"
	"math/big"
	"sort"
	"strconv"
	"strings"

	"github.com/cosmos/btcutil/bech32"
)

// ---------- packet data ----------

type ICS20 struct {
	Denom    string `json:"denom"`
	Amount   string `json:"amount"`
	Sender   string `json:"sender"`
	Receiver string `json:"receiver"`
	Memo     string `json:"memo"`
}

// parseICS20 is the model's reading of packet bytes. ok=false means "the model does
// not consider this ICS-20 data" (then only unconditional rules apply).
func parseICS20(data []byte) (ICS20, bool) {
	var d ICS20
	dec := json.NewDecoder(bytes.NewReader(data))
	dec.DisallowUnknownFields()
	if err := dec.Decode(&d); err != nil {
		return d, false
	}
	if dec.More() {
		return d, false
	}
	return d, true
}

// decodesTo reports whether s is a valid bech32 string (BIP-173: all lower or all
// upper case) with hrp "noble" whose payload is exactly addr.
func decodesTo(s string, addr []byte) bool {
	if s == "" {
		return false
	}
	if strings.ToLower(s) != s && strings.ToUpper(s) != s {
		return false
	}
	hrp, data, err := bech32.DecodeNoLimit(s)
	if err != nil {
		return false
	}
	if strings.ToLower(hrp) != "noble" {
		return false
	}
	conv, err := bech32.ConvertBits(data, 5, 8, false)
	if err != nil {
		return false
	}
	return bytes.Equal(conv, addr)
}

func validNobleAddr(s string) ([]byte, bool) {
	if s == "" || (strings.ToLower(s) != s && strings.ToUpper(s) != s) {
		return nil, false
	}
	hrp, data, err := bech32.DecodeNoLimit(s)
	if err != nil || strings.ToLower(hrp) != "noble" {
		return nil, false
	}
	conv, err := bech32.ConvertBits(data, 5, 8, false)
	if err != nil || len(conv) == 0 || len(conv) > 255 {
		return nil, false
	}
	return conv, true
}

// ---------- payload ----------

type MFee struct {
	Recipient string
	IsBPS     bool
	BPS       uint64
	Amount    *big.Int // fixed amount (canonical decimal)
}

type MSwap struct {
	Denom    string
	Num, Den int64
}

type MPayload struct {
	HasFee bool
	Fees   []MFee
	// Swap: the denomination-changing test action (mode B only); SwapFirst: it precedes the fee action
	Swap      *MSwap
	SwapFirst bool
	Proto  string // PROTOCOL_CCTP | PROTOCOL_HYPERLANE | PROTOCOL_INTERNAL
	// CCTP
	Domain        uint32
	MintRecipient []byte
	DestCaller    []byte
	// Hyperlane
	Token       []byte
	Recipient32 []byte
	HookID      []byte
	HookMeta    string
	GasLimit    string
	MaxFeeDenom string
	MaxFeeAmt   string
	// internal
	Recipient   string
	Passthrough []byte
	PTNull      bool // passthrough serialised as null
}

const (
	typeFee  = "/noble.orbiter.controller.action.v2.FeeAttributes"
	typeCCTP = "/noble.orbiter.controller.forwarding.v1.CCTPAttributes"
	typeHyp  = "/noble.orbiter.controller.forwarding.v1.HypAttributes"
	typeInt  = "/noble.orbiter.controller.forwarding.v1.InternalAttributes"
	typeSwapAttr = "/testpb.TestActionAttr"
)

func (p *MPayload) Counterparty() string {
	switch p.Proto {
	case "PROTOCOL_CCTP", "PROTOCOL_HYPERLANE":
		return strconv.FormatUint(uint64(p.Domain), 10)
	case "PROTOCOL_INTERNAL":
		return "noble"
	}
	return ""
}

func protoNum(p string) int {
	switch p {
	case "PROTOCOL_IBC":
		return 1
	case "PROTOCOL_CCTP":
		return 2
	case "PROTOCOL_HYPERLANE":
		return 3
	case "PROTOCOL_INTERNAL":
		return 4
	}
	return 0
}

func protoName(n int) string {
	switch n {
	case 1:
		return "PROTOCOL_IBC"
	case 2:
		return "PROTOCOL_CCTP"
	case 3:
		return "PROTOCOL_HYPERLANE"
	case 4:
		return "PROTOCOL_INTERNAL"
	}
	return "PROTOCOL_UNSUPPORTED"
}

func b64(b []byte) string {
	if b == nil {
		return "null"
	}
	return strconv.Quote(base64.StdEncoding.EncodeToString(b))
}

// Canonical is the model's own serialisation; a memo is canonical iff it is
// byte-identical to Canonical() of what the model parsed from it.
func (p *MPayload) Canonical() string {
	var sb strings.Builder
	sb.WriteString(`{"orbiter":{`)
	feeJSON := ""
	if p.HasFee {
		var fb strings.Builder
		fb.WriteString(`{"id":"ACTION_FEE","attributes":{"@type":"` + typeFee + `","fees_info":[`)
		for i, f := range p.Fees {
			if i > 0 {
				fb.WriteString(",")
			}
			fb.WriteString(`{"recipient":` + strconv.Quote(f.Recipient) + `,`)
			if f.IsBPS {
				fb.WriteString(`"basis_points":{"value":` + strconv.FormatUint(f.BPS, 10) + `}}`)
			} else {
				fb.WriteString(`"amount":{"value":"` + f.Amount.String() + `"}}`)
			}
		}
		fb.WriteString(`]}}`)
		feeJSON = fb.String()
	}
	swapJSON := ""
	if p.Swap != nil {
		swapJSON = fmt.Sprintf(`{"id":"ACTION_SWAP","attributes":{"@type":"%s","whatever":"%s:%d/%d"}}`, typeSwapAttr, p.Swap.Denom, p.Swap.Num, p.Swap.Den)
	}
	var acts []string
	if p.SwapFirst && swapJSON != "" {
		acts = append(acts, swapJSON)
	}
	if feeJSON != "" {
		acts = append(acts, feeJSON)
	}
	if !p.SwapFirst && swapJSON != "" {
		acts = append(acts, swapJSON)
	}
	sb.WriteString(`"pre_actions":[` + strings.Join(acts, ",") + `],`)
	sb.WriteString(`"forwarding":{"protocol_id":"` + p.Proto + `","attributes":{`)
	switch p.Proto {
	case "PROTOCOL_CCTP":
		sb.WriteString(`"@type":"` + typeCCTP + `","destination_domain":` + strconv.FormatUint(uint64(p.Domain), 10) + `,"mint_recipient":` + b64(p.MintRecipient) + `,"destination_caller":` + b64(p.DestCaller))
	case "PROTOCOL_HYPERLANE":
		sb.WriteString(`"@type":"` + typeHyp + `","token_id":` + b64(p.Token) + `,"destination_domain":` + strconv.FormatUint(uint64(p.Domain), 10) + `,"recipient":` + b64(p.Recipient32) + `,"custom_hook_id":` + b64(p.HookID) + `,"custom_hook_metadata":` + strconv.Quote(p.HookMeta) + `,"gas_limit":"` + p.GasLimit + `","max_fee":{"denom":` + strconv.Quote(p.MaxFeeDenom) + `,"amount":"` + p.MaxFeeAmt + `"}`)
	case "PROTOCOL_INTERNAL":
		sb.WriteString(`"@type":"` + typeInt + `","recipient":` + strconv.Quote(p.Recipient))
	}
	sb.WriteString(`},"passthrough_payload":`)
	if p.PTNull {
		sb.WriteString("null")
	} else {
		sb.WriteString(strconv.Quote(base64.StdEncoding.EncodeToString(p.Passthrough)))
	}
	sb.WriteString(`}}}`)
	return sb.String()
}

type jFee struct {
	Recipient   *string `json:"recipient"`
	BasisPoints *struct {
		Value *json.Number `json:"value"`
	} `json:"basis_points"`
	Amount *struct {
		Value *string `json:"value"`
	} `json:"amount"`
}

type jAction struct {
	ID         *string `json:"id"`
	Attributes *struct {
		Type     *string `json:"@type"`
		FeesInfo []jFee  `json:"fees_info"`
		Whatever *string `json:"whatever"`
	} `json:"attributes"`
}

type jFwd struct {
	ProtocolID  *string          `json:"protocol_id"`
	Attributes  json.RawMessage  `json:"attributes"`
	Passthrough json.RawMessage `json:"passthrough_payload"`
}

type jRoot struct {
	Orbiter *struct {
		PreActions []jAction `json:"pre_actions"`
		Forwarding *jFwd     `json:"forwarding"`
	} `json:"orbiter"`
}

func strictDecode(b []byte, v any) bool {
	dec := json.NewDecoder(bytes.NewReader(b))
	dec.DisallowUnknownFields()
	dec.UseNumber()
	if err := dec.Decode(v); err != nil {
		return false
	}
	return !dec.More()
}

func decB64(raw json.RawMessage) ([]byte, bool) {
	if len(raw) == 0 || string(raw) == "null" {
		return nil, true
	}
	var s string
	if json.Unmarshal(raw, &s) != nil {
		return nil, false
	}
	b, err := base64.StdEncoding.DecodeString(s)
	if err != nil {
		return nil, false
	}
	if b == nil {
		b = []byte{}
	}
	return b, true
}

var decRe = func(s string) bool {
	if s == "" {
		return false
	}
	if s == "0" {
		return true
	}
	if s[0] < '1' || s[0] > '9' {
		return false
	}
	for _, c := range s {
		if c < '0' || c > '9' {
			return false
		}
	}
	return true
}

// parsePayload returns the model reading of a memo and whether the memo is canonical.
func parsePayload(memo string) (*MPayload, bool) {
	var r jRoot
	if !strictDecode([]byte(memo), &r) || r.Orbiter == nil || r.Orbiter.Forwarding == nil {
		return nil, false
	}
	p := &MPayload{}
	if len(r.Orbiter.PreActions) > 2 {
		return nil, false
	}
	for ai, a := range r.Orbiter.PreActions {
		if a.ID == nil || a.Attributes == nil || a.Attributes.Type == nil {
			return nil, false
		}
		switch *a.ID {
		case "ACTION_SWAP":
			if p.Swap != nil || *a.Attributes.Type != typeSwapAttr || a.Attributes.Whatever == nil || a.Attributes.FeesInfo != nil {
				return nil, false
			}
			w := *a.Attributes.Whatever
			i := strings.Index(w, ":")
			if i < 0 {
				return nil, false
			}
			var num, den int64
			if _, err := fmt.Sscanf(w[i+1:], "%d/%d", &num, &den); err != nil || num <= 0 || den <= 0 {
				return nil, false
			}
			p.Swap = &MSwap{Denom: w[:i], Num: num, Den: den}
			p.SwapFirst = ai == 0
		case "ACTION_FEE":
			if p.HasFee || *a.Attributes.Type != typeFee || a.Attributes.Whatever != nil {
				return nil, false
			}
			p.HasFee = true
			for _, f := range a.Attributes.FeesInfo {
				if f.Recipient == nil {
					return nil, false
				}
				mf := MFee{Recipient: *f.Recipient}
				switch {
				case f.BasisPoints != nil && f.Amount == nil && f.BasisPoints.Value != nil:
					v, err := strconv.ParseUint(f.BasisPoints.Value.String(), 10, 32)
					if err != nil {
						return nil, false
					}
					mf.IsBPS, mf.BPS = true, v
				case f.Amount != nil && f.BasisPoints == nil && f.Amount.Value != nil:
					if !decRe(*f.Amount.Value) {
						return nil, false
					}
					mf.Amount, _ = new(big.Int).SetString(*f.Amount.Value, 10)
				default:
					return nil, false
				}
				p.Fees = append(p.Fees, mf)
			}
		default:
			return nil, false
		}
	}
	if p.Swap != nil && !p.HasFee {
		p.SwapFirst = true
	}
	f := r.Orbiter.Forwarding
	if f.ProtocolID == nil {
		return nil, false
	}
	p.Proto = *f.ProtocolID
	if len(f.Passthrough) == 0 {
		return nil, false
	}
	pt, ok := decB64(f.Passthrough)
	if !ok {
		return nil, false
	}
	p.Passthrough, p.PTNull = pt, string(f.Passthrough) == "null"
	switch p.Proto {
	case "PROTOCOL_CCTP":
		var a struct {
			Type   *string         `json:"@type"`
			Domain *json.Number    `json:"destination_domain"`
			Mint   json.RawMessage `json:"mint_recipient"`
			Caller json.RawMessage `json:"destination_caller"`
		}
		if !strictDecode(f.Attributes, &a) || a.Type == nil || *a.Type != typeCCTP || a.Domain == nil {
			return nil, false
		}
		d, err := strconv.ParseUint(a.Domain.String(), 10, 32)
		if err != nil {
			return nil, false
		}
		p.Domain = uint32(d)
		var ok1, ok2 bool
		p.MintRecipient, ok1 = decB64(a.Mint)
		p.DestCaller, ok2 = decB64(a.Caller)
		if !ok1 || !ok2 {
			return nil, false
		}
	case "PROTOCOL_HYPERLANE":
		var a struct {
			Type   *string         `json:"@type"`
			Token  json.RawMessage `json:"token_id"`
			Domain *json.Number    `json:"destination_domain"`
			Rcpt   json.RawMessage `json:"recipient"`
			Hook   json.RawMessage `json:"custom_hook_id"`
			Meta   *string         `json:"custom_hook_metadata"`
			Gas    *string         `json:"gas_limit"`
			MaxFee *struct {
				Denom  *string `json:"denom"`
				Amount *string `json:"amount"`
			} `json:"max_fee"`
		}
		if !strictDecode(f.Attributes, &a) || a.Type == nil || *a.Type != typeHyp || a.Domain == nil || a.Meta == nil || a.Gas == nil || a.MaxFee == nil || a.MaxFee.Denom == nil || a.MaxFee.Amount == nil {
			return nil, false
		}
		d, err := strconv.ParseUint(a.Domain.String(), 10, 32)
		if err != nil {
			return nil, false
		}
		p.Domain = uint32(d)
		var o1, o2, o3 bool
		p.Token, o1 = decB64(a.Token)
		p.Recipient32, o2 = decB64(a.Rcpt)
		p.HookID, o3 = decB64(a.Hook)
		if !o1 || !o2 || !o3 || !decRe(*a.Gas) || !decRe(*a.MaxFee.Amount) {
			return nil, false
		}
		p.HookMeta, p.GasLimit, p.MaxFeeDenom, p.MaxFeeAmt = *a.Meta, *a.Gas, *a.MaxFee.Denom, *a.MaxFee.Amount
	case "PROTOCOL_INTERNAL":
		var a struct {
			Type *string `json:"@type"`
			Rcpt *string `json:"recipient"`
		}
		if !strictDecode(f.Attributes, &a) || a.Type == nil || *a.Type != typeInt || a.Rcpt == nil {
			return nil, false
		}
		p.Recipient = *a.Rcpt
	default:
		return nil, false
	}
	return p, p.Canonical() == memo
}

// ---------- fee arithmetic (C04) ----------

var max256 = new(big.Int).Sub(new(big.Int).Lsh(big.NewInt(1), 256), big.NewInt(1))

type FeeOutcome struct {
	Refuse  bool
	Reason  string
	Credits []*big.Int // per entry (zero = credits nothing)
	Total   *big.Int
}

// modelFees computes what a fee action must do on amount A.
func modelFees(A *big.Int, fees []MFee) FeeOutcome {
	o := FeeOutcome{Total: new(big.Int)}
	if len(fees) > 5 {
		return FeeOutcome{Refuse: true, Reason: "more than five entries"}
	}
	for _, f := range fees {
		if _, ok := validNobleAddr(f.Recipient); !ok {
			return FeeOutcome{Refuse: true, Reason: "invalid recipient"}
		}
		var c *big.Int
		if f.IsBPS {
			if f.BPS == 0 || f.BPS > 10000 {
				return FeeOutcome{Refuse: true, Reason: "bps out of range"}
			}
			prod := new(big.Int).Mul(A, new(big.Int).SetUint64(f.BPS))
			if prod.Cmp(max256) > 0 {
				return FeeOutcome{Refuse: true, Reason: "overflow"}
			}
			c = prod.Quo(prod, big.NewInt(10000))
		} else {
			if f.Amount.Sign() <= 0 {
				return FeeOutcome{Refuse: true, Reason: "non-positive fixed amount"}
			}
			if f.Amount.Cmp(max256) > 0 {
				return FeeOutcome{Refuse: true, Reason: "overflow"}
			}
			c = new(big.Int).Set(f.Amount)
		}
		o.Credits = append(o.Credits, c)
		o.Total.Add(o.Total, c)
	}
	if o.Total.Cmp(max256) > 0 {
		return FeeOutcome{Refuse: true, Reason: "overflow"}
	}
	if o.Total.Cmp(A) >= 0 {
		return FeeOutcome{Refuse: true, Reason: "fees not strictly below amount"}
	}
	return o
}

// ---------- orbiter state model ----------

type StatKey struct {
	SrcProto int
	SrcCP    string
	DstProto int
	DstCP    string
	Denom    string
}

type OrbModel struct {
	PausedProto map[string]bool // protocol name
	PausedCC    map[string]bool // "<proto name>|<counterparty>"
	PausedAct   map[string]bool // action name
	Unrepresentable bool // some statistics total left the range of a 256-bit integer
	Limit       uint64
	In, Out     map[StatKey]*big.Int
	Count       map[StatKey]uint64 // Denom left empty
}

func NewOrbModel() *OrbModel {
	return &OrbModel{PausedProto: map[string]bool{}, PausedCC: map[string]bool{}, PausedAct: map[string]bool{},
		In: map[StatKey]*big.Int{}, Out: map[StatKey]*big.Int{}, Count: map[StatKey]uint64{}}
}

func (m *OrbModel) Clone() *OrbModel {
	c := NewOrbModel()
	for k, v := range m.PausedProto {
		c.PausedProto[k] = v
	}
	for k, v := range m.PausedCC {
		c.PausedCC[k] = v
	}
	for k, v := range m.PausedAct {
		c.PausedAct[k] = v
	}
	c.Limit = m.Limit
	for k, v := range m.In {
		c.In[k] = new(big.Int).Set(v)
	}
	for k, v := range m.Out {
		c.Out[k] = new(big.Int).Set(v)
	}
	for k, v := range m.Count {
		c.Count[k] = v
	}
	return c
}

func (m *OrbModel) AddStat(srcChan string, dstProto int, dstCP, denom string, in, out *big.Int) {
	k := StatKey{1, srcChan, dstProto, dstCP, denom}
	if m.In[k] == nil {
		m.In[k], m.Out[k] = new(big.Int), new(big.Int)
	}
	m.In[k].Add(m.In[k], in)
	m.Out[k].Add(m.Out[k], out)
	if m.In[k].Cmp(max256) > 0 || m.Out[k].Cmp(max256) > 0 {
		// a total beyond 2^256-1 cannot be recorded by any implementation: from here on the statistics of this run
		// are outside what C12 can speak about (the module logs the failed update and goes on)
		m.Unrepresentable = true
	}
}

func (m *OrbModel) AddCount(srcChan string, dstProto int, dstCP string) {
	m.Count[StatKey{1, srcChan, dstProto, dstCP, ""}]++
}

func (m *OrbModel) IsPaused(proto, cp string) bool {
	return m.PausedProto[proto] || m.PausedCC[proto+"|"+cp]
}

// Render gives a sorted, comparable text of the statistics part.
func (m *OrbModel) RenderStats() []string {
	var out []string
	for k, in := range m.In {
		if in.Sign() == 0 && m.Out[k].Sign() == 0 {
			continue
		}
		out = append(out, fmt.Sprintf("amt %d:%s -> %d:%s %s in=%s out=%s", k.SrcProto, k.SrcCP, k.DstProto, k.DstCP, k.Denom, in, m.Out[k]))
	}
	for k, c := range m.Count {
		if c == 0 {
			continue
		}
		out = append(out, fmt.Sprintf("cnt %d:%s -> %d:%s n=%d", k.SrcProto, k.SrcCP, k.DstProto, k.DstCP, c))
	}
	sort.Strings(out)
	return out
}

func (m *OrbModel) RenderPause() []string {
	var out []string
	for k, v := range m.PausedProto {
		if v {
			out = append(out, "proto "+k)
		}
	}
	for k, v := range m.PausedCC {
		if v {
			out = append(out, "cc "+k)
		}
	}
	for k, v := range m.PausedAct {
		if v {
			out = append(out, "act "+k)
		}
	}
	sort.Strings(out)
	return out
}

// ---------- environment health model (only what the simulator's own admin actors did) ----------

type EnvModel struct {
	FTFPaused   bool
	Blacklist   map[string]bool // address string
	CCTPPaused  bool            // burning and minting
	CCTPMsgStop bool            // sending and receiving messages
	BurnLimit   *big.Int
	Messenger   map[uint32]bool
	Router      map[string]map[uint32]bool // denom -> domain
}

func NewEnvModel() *EnvModel {
	e := &EnvModel{Blacklist: map[string]bool{}, Messenger: map[uint32]bool{}, Router: map[string]map[uint32]bool{}, BurnLimit: BurnLimit.BigInt()}
	for _, d := range CCTPDomains {
		e.Messenger[d] = true
	}
	for _, den := range []string{DenomUSDC, DenomHuge} {
		e.Router[den] = map[uint32]bool{}
		for _, d := range HypDomains {
			e.Router[den][d] = true
		}
	}
	return e
}

// actions lists the payload's pre-actions in payload order (for the model fold).
func (p *MPayload) actions() []mAction {
	var out []mAction
	sw := func() {
		if p.Swap != nil {
			out = append(out, mAction{Kind: "swap", Denom: p.Swap.Denom, Num: p.Swap.Num, Den: p.Swap.Den})
		}
	}
	if p.SwapFirst {
		sw()
	}
	if p.HasFee {
		out = append(out, mAction{Kind: "fee", Fees: p.Fees})
	}
	if !p.SwapFirst {
		sw()
	}
	return out
}
