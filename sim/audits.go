package main

// Auditor actor: checkpoints run on whatever state the history produced.
//   queries  (C13) — every statistics query and pagination walk is compared with the export
//   genesis  (C17) — export -> validate -> rebuilt-store twin / fresh InitChain twin -> same bytes, same behaviour;
//                    mutated genesis documents: accepted by validation => initialisable
//   impostor (C10) — every Msg RPC of the module, enumerated from the service descriptors, with foreign signers
//   ids      (C20) — counterparty spellings fed to messages, queries and genesis; pause -> probe

import (
	"bytes"
	"context"
	"encoding/json"
	"fmt"
	"reflect"
	"sort"
	"strconv"
	"strings"

	sdkmath "cosmossdk.io/math"
	abci "github.com/cometbft/cometbft/abci/types"
	sdk "github.com/cosmos/cosmos-sdk/types"
	"github.com/cosmos/cosmos-sdk/types/query"
	gogoproto "github.com/cosmos/gogoproto/proto"
	"google.golang.org/protobuf/reflect/protoreflect"
	"google.golang.org/protobuf/reflect/protoregistry"

	orbitertypes "github.com/noble-assets/orbiter/v2/types"
	adaptertypes "github.com/noble-assets/orbiter/v2/types/component/adapter"
	dispatchercomp "github.com/noble-assets/orbiter/v2/keeper/component/dispatcher"
	dispatchertypes "github.com/noble-assets/orbiter/v2/types/component/dispatcher"
	executortypes "github.com/noble-assets/orbiter/v2/types/component/executor"
	forwardertypes "github.com/noble-assets/orbiter/v2/types/component/forwarder"
	"github.com/noble-assets/orbiter/v2/types/core"
)

func hasAudit(prof *Profile, name string) bool {
	for _, x := range prof.Checkpoint {
		if x == name {
			return true
		}
	}
	return false
}

func (s *Sim) checkpoint(op Op) {
	r := NewRng(op.N ^ 0xabcdef)
	s.Stats.Count("checkpoints")
	if hasAudit(s.Prof, "queries") {
		s.auditQueries(r)
	}
	if hasAudit(s.Prof, "genesis") {
		s.auditGenesis(r, false)
	}
	if hasAudit(s.Prof, "impostor") {
		s.auditImpostor(r)
	}
	if hasAudit(s.Prof, "ids") {
		s.auditIDs(r)
	}
	if hasAudit(s.Prof, "pausequeries") {
		s.auditPauseQueries(r)
	}
}

// abciQuery goes through the real ABCI Query path (gRPC router, committed state).
func (s *Sim) abciQuery(path string, req, resp gogoproto.Message) (code uint32, log string) {
	bz, err := gogoproto.Marshal(req)
	if err != nil {
		panic(harnessErr("marshal query: %v", err))
	}
	app := s.N.App
	if s.qNode != nil {
		app = s.qNode.App // the query surface of a chain re-initialised from this one's export
	}
	res, err := app.Query(context.Background(), &abci.RequestQuery{Path: path, Data: bz})
	if err != nil {
		return 1, err.Error()
	}
	if res.Code != 0 {
		return res.Code, res.Log
	}
	if err := gogoproto.Unmarshal(res.Value, resp); err != nil {
		panic(harnessErr("unmarshal query response: %v", err))
	}
	return 0, ""
}

const (
	qDisp = "/noble.orbiter.component.dispatcher.v1.Query/"
	qFwd  = "/noble.orbiter.component.forwarder.v1.Query/"
	qExe  = "/noble.orbiter.component.executor.v1.Query/"
	qAda  = "/noble.orbiter.component.adapter.v1.Query/"
)

func amtLine(a *dispatchertypes.DispatchedAmountEntry) string {
	return fmt.Sprintf("%d:%s -> %d:%s %s in=%s out=%s", int(a.SourceId.ProtocolId), a.SourceId.CounterpartyId, int(a.DestinationId.ProtocolId), a.DestinationId.CounterpartyId, a.Denom, a.AmountDispatched.Incoming, a.AmountDispatched.Outgoing)
}

func cntLine(c *dispatchertypes.DispatchCountEntry) string {
	return fmt.Sprintf("%d:%s -> %d:%s n=%d", int(c.SourceId.ProtocolId), c.SourceId.CounterpartyId, int(c.DestinationId.ProtocolId), c.DestinationId.CounterpartyId, c.Count)
}

// ---------------- C13 ----------------

func (s *Sim) auditQueries(r *Rng) {
	s.queryFaultPass(r)
	g := s.N.App.OrbiterKeeper.ExportGenesis(s.N.Ctx())
	amts, cnts := g.DispatcherGenesis.DispatchedAmounts, g.DispatcherGenesis.DispatchedCounts
	if len(amts) >= 3 {
		s.Stats.Probe("query_audit_with_3plus_entries")
	}
	bad := func(rule, fp, f string, a ...any) {
		s.violate("C13", rule, fp, fmt.Sprintf(f, a...))
	}
	// direct lookups of every existing key
	for i := range amts {
		a := &amts[i]
		s.Stats.Count("rule:C13.direct-lookup")
		var resp dispatchertypes.QueryDispatchedAmountsResponse
		code, log := s.abciQuery(qDisp+"DispatchedAmounts", &dispatchertypes.QueryDispatchedAmountsRequest{SourceProtocolId: a.SourceId.ProtocolId.String(), SourceCounterpartyId: a.SourceId.CounterpartyId, DestinationProtocolId: a.DestinationId.ProtocolId.String(), DestinationCounterpartyId: a.DestinationId.CounterpartyId, Denom: a.Denom}, &resp)
		if code != 0 || len(resp.Amounts) != 1 || amtLine(resp.Amounts[0]) != amtLine(a) {
			bad("direct-lookup", "amount-entry-not-returned", "existing entry %s: code=%d log=%.120s got=%v", amtLine(a), code, log, resp.Amounts)
		}
	}
	for i := range cnts {
		c := &cnts[i]
		s.Stats.Count("rule:C13.direct-lookup")
		var resp dispatchertypes.QueryDispatchedCountsResponse
		code, log := s.abciQuery(qDisp+"DispatchedCounts", &dispatchertypes.QueryDispatchedCountsRequest{SourceProtocolId: c.SourceId.ProtocolId.String(), SourceCounterpartyId: c.SourceId.CounterpartyId, DestinationProtocolId: c.DestinationId.ProtocolId.String(), DestinationCounterpartyId: c.DestinationId.CounterpartyId}, &resp)
		if code != 0 || len(resp.Counts) != 1 || cntLine(resp.Counts[0]) != cntLine(c) {
			bad("direct-lookup", "count-entry-not-returned", "existing entry %s: code=%d log=%.120s got=%v", cntLine(c), code, log, resp.Counts)
		}
	}
	// absent keys: fields recombined from different entries
	if len(amts) > 0 {
		have := map[string]bool{}
		for i := range amts {
			have[amtLine(&amts[i])[:strings.Index(amtLine(&amts[i]), " in=")]] = true
		}
		for k := 0; k < 6; k++ {
			a, b := amts[r.Intn(len(amts))], amts[r.Intn(len(amts))]
			denom := []string{a.Denom, b.Denom, "unobtainium"}[r.Intn(3)]
			key := fmt.Sprintf("%d:%s -> %d:%s %s", int(a.SourceId.ProtocolId), a.SourceId.CounterpartyId, int(b.DestinationId.ProtocolId), b.DestinationId.CounterpartyId, denom)
			var resp dispatchertypes.QueryDispatchedAmountsResponse
			code, _ := s.abciQuery(qDisp+"DispatchedAmounts", &dispatchertypes.QueryDispatchedAmountsRequest{SourceProtocolId: a.SourceId.ProtocolId.String(), SourceCounterpartyId: a.SourceId.CounterpartyId, DestinationProtocolId: b.DestinationId.ProtocolId.String(), DestinationCounterpartyId: b.DestinationId.CounterpartyId, Denom: denom}, &resp)
			s.Stats.Count("rule:C13.absent-lookup")
			if have[key] != (code == 0) {
				bad("direct-lookup", "presence-disagrees-with-ledger", "key %s: in ledger=%v, query code=%d", key, have[key], code)
			}
		}
	}
	// listings and pagination walks
	protos := []core.ProtocolID{core.PROTOCOL_IBC, core.PROTOCOL_CCTP, core.PROTOCOL_HYPERLANE, core.PROTOCOL_INTERNAL}
	for _, p := range protos {
		var wantSrcA, wantDstA, wantSrcC, wantDstC []string
		var kSrcA, kDstA, kSrcC, kDstC [][2]string // (all key components but the last, last component)
		for i := range amts {
			a := &amts[i]
			kp := [2]string{fmt.Sprintf("%d|%s|%s", int(a.SourceId.ProtocolId), a.SourceId.CounterpartyId, a.DestinationId.ID()), a.Denom}
			if a.SourceId.ProtocolId == p {
				wantSrcA, kSrcA = append(wantSrcA, amtLine(a)), append(kSrcA, kp)
			}
			if a.DestinationId.ProtocolId == p {
				wantDstA, kDstA = append(wantDstA, amtLine(a)), append(kDstA, kp)
			}
		}
		for i := range cnts {
			c := &cnts[i]
			kp := [2]string{fmt.Sprintf("%d|%s|%d", int(c.SourceId.ProtocolId), c.SourceId.CounterpartyId, int(c.DestinationId.ProtocolId)), c.DestinationId.CounterpartyId}
			if c.SourceId.ProtocolId == p {
				wantSrcC, kSrcC = append(wantSrcC, cntLine(c)), append(kSrcC, kp)
			}
			if c.DestinationId.ProtocolId == p {
				wantDstC, kDstC = append(wantDstC, cntLine(c)), append(kDstC, kp)
			}
		}
		s.walkListing(r, "DispatchedAmountsBySourceProtocolID", p, wantSrcA, true, kSrcA)
		s.walkListing(r, "DispatchedAmountsByDestinationProtocolID", p, wantDstA, true, kDstA)
		s.walkListing(r, "DispatchedCountsBySourceProtocolID", p, wantSrcC, false, kSrcC)
		s.walkListing(r, "DispatchedCountsByDestinationProtocolID", p, wantDstC, false, kDstC)
	}
}

// auditAfterGenesisRestart: the chain is restarted through its own exported genesis (a fresh application
// instance, real InitChain with the exported orbiter section) and the audits of this check run against the
// new instance: statistics views (C13), the fold itself (C12), pause sets, paused actions and the limit in
// force (C08, C09, C18) must be on the restarted chain what they were on the chain that got there message by
// message.
func (s *Sim) auditAfterGenesisRestart(r *Rng) {
	g := s.N.App.OrbiterKeeper.ExportGenesis(s.N.Ctx())
	var failure string
	var n2 *Node
	func() {
		defer func() {
			if rr := recover(); rr != nil {
				failure = fmt.Sprintf("%v", rr)
			}
		}()
		n2 = newGenesisOnlyNode(s.Env, g)
	}()
	if failure != "" {
		s.Stats.Count("genesis_restart_failed_to_initialise") // C17's business
		return
	}
	s.Stats.Fault("restart_through_exported_genesis")
	for _, c := range g.DispatcherGenesis.DispatchedCounts {
		if c.Count > 1 {
			s.Stats.Probe("genesis_restart_with_route_used_more_than_once")
			break
		}
	}
	real := s.N
	s.qNode, s.qTag = n2, " state=restarted-through-exported-genesis"
	s.N = n2 // whatever the audits export to compare with is taken from the new instance as well
	defer func() { s.N, s.qNode, s.qTag = real, nil, "" }()
	if hasAudit(s.Prof, "queries") && len(g.DispatcherGenesis.DispatchedCounts) > 0 {
		s.Stats.Count("rule:C13.after-genesis-restart")
		s.auditQueries(r)
	}
	if hasAudit(s.Prof, "pausequeries") {
		s.Stats.Count("rule:C08-C09-C18.queries-after-genesis-restart")
		s.auditPauseQueries(r)
	}
	if s.Prof.Name == "C12" && !s.statsTainted {
		s.Stats.Count("rule:C12.fold-after-genesis-restart")
		stats, _, _ := s.exportRender()
		want := s.Model.RenderStats()
		if !sameStrs(stats, want) {
			s.violate("C12", "stats-equal-fold", "statistics-differ-from-fold", fmt.Sprintf("after a restart through the exported genesis: %s", firstDiff(stats, want)))
		}
	}
}

func (s *Sim) listPage(method string, p core.ProtocolID, amounts bool, pr *query.PageRequest) (lines []string, page *query.PageResponse, code uint32, log string) {
	if amounts {
		var resp dispatchertypes.QueryDispatchedAmountsResponse
		code, log = s.abciQuery(qDisp+method, &dispatchertypes.QueryDispatchedAmountsByProtocolIDRequest{ProtocolId: p.String(), Pagination: pr}, &resp)
		for _, a := range resp.Amounts {
			lines = append(lines, amtLine(a))
		}
		return lines, resp.Pagination, code, log
	}
	var resp dispatchertypes.QueryDispatchedCountsResponse
	code, log = s.abciQuery(qDisp+method, &dispatchertypes.QueryDispatchedCountsByProtocolIDRequest{ProtocolId: p.String(), Pagination: pr}, &resp)
	for _, c := range resp.Counts {
		lines = append(lines, cntLine(c))
	}
	return lines, resp.Pagination, code, log
}

func sortedCopy(x []string) []string {
	y := append([]string(nil), x...)
	sort.Strings(y)
	return y
}

func reversed(x []string) []string {
	y := make([]string, len(x))
	for i := range x {
		y[len(x)-1-i] = x[i]
	}
	return y
}

// walkListing: the full listing equals the matching subset of the export (as a set: the index
// order is the store's business), and key-following / offset pagination visits each entry exactly once.
// prefixSiblings: two keys that agree on every component but the last, the last component of one
// being a strict byte prefix of the other's (e.g. counterparties "1" and "10").
func prefixSiblings(kp [][2]string) bool {
	for i := range kp {
		for j := range kp {
			if i != j && kp[i][0] == kp[j][0] && kp[i][1] != kp[j][1] && strings.HasPrefix(kp[j][1], kp[i][1]) {
				return true
			}
		}
	}
	return false
}

func (s *Sim) walkListing(r *Rng, method string, p core.ProtocolID, want []string, amounts bool, kp [][2]string) {
	bad := func(fp, f string, a ...any) {
		s.violate("C13", "listing-and-pagination", fp+" method="+method, fmt.Sprintf("%s(%s): ", method, p)+fmt.Sprintf(f, a...))
	}
	n := len(want)
	full, page, code, log := s.listPage(method, p, amounts, &query.PageRequest{Limit: uint64(n + 5), CountTotal: true})
	s.Stats.Count("rule:C13.listing")
	if code != 0 {
		bad("query-failed", "code=%d %.200s", code, log)
		return
	}
	if !sameStrs(sortedCopy(full), sortedCopy(want)) {
		bad("listing-differs-from-ledger", "listing %v, ledger subset %v", full, want)
		return
	}
	if page == nil || page.Total != uint64(n) {
		bad("count-total", "total %v, expected %d", page, n)
	}
	if n == 0 {
		return
	}
	if n >= 3 {
		s.Stats.Probe("pagination_walk_over_3plus_entries")
	}
	// key-following walks, forwards and in reverse
	for _, reverse := range []bool{false, true} {
		limit := uint64(1 + r.Intn(n+2))
		var got []string
		var key []byte
		for step := 0; step < n+3; step++ {
			lines, pg, code, log := s.listPage(method, p, amounts, &query.PageRequest{Key: key, Limit: limit, Reverse: reverse})
			s.Stats.Count("rule:C13.page")
			if code != 0 {
				bad("query-failed", "page code=%d %.200s", code, log)
				return
			}
			if uint64(len(lines)) > limit {
				bad("page-larger-than-limit", "limit %d, got %d", limit, len(lines))
			}
			got = append(got, lines...)
			if pg == nil || len(pg.NextKey) == 0 {
				break
			}
			key = pg.NextKey
			if uint64(len(lines)) == limit && len(got) == n {
				s.Stats.Probe("page_boundary_on_last_element")
			}
		}
		exp := full
		if reverse {
			exp = reversed(full)
		}
		if !sameStrs(got, exp) {
			fp := fmt.Sprintf("walk-not-exactly-once reverse=%v", reverse)
			if reverse && prefixSiblings(kp) {
				fp += " cause=reverse-start-key-is-byte-prefix-of-a-sibling-key"
			}
			bad(fp, "limit=%d: visited %v, expected %v", limit, got, exp)
		}
	}
	// offset mode
	off, lim := uint64(r.Intn(n+1)), uint64(1+r.Intn(n+1))
	lines, pg, code, log := s.listPage(method, p, amounts, &query.PageRequest{Offset: off, Limit: lim, CountTotal: true})
	s.Stats.Count("rule:C13.page")
	if code != 0 {
		bad("query-failed", "offset page code=%d %.200s", code, log)
		return
	}
	hi := int(off + lim)
	if hi > n {
		hi = n
	}
	var exp []string
	if int(off) < n {
		exp = full[off:hi]
	}
	if !sameStrs(lines, exp) {
		bad("offset-page-differs", "offset=%d limit=%d: got %v, expected %v", off, lim, lines, exp)
	}
	if pg == nil || pg.Total != uint64(n) {
		bad("count-total", "offset page total %v, expected %d", pg, n)
	}
}

// auditPauseQueries (C08/C09/C18): the query surface reports exactly the model's sets.
func (s *Sim) auditPauseQueries(r *Rng) {
	md := s.Model
	var pp forwardertypes.QueryPausedProtocolsResponse
	if code, log := s.abciQuery(qFwd+"PausedProtocols", &forwardertypes.QueryPausedProtocolsRequest{}, &pp); code != 0 {
		s.violate("C08", "queries-report-sets", "query-failed PausedProtocols", log)
	} else {
		var got []string
		for _, p := range pp.ProtocolIds {
			got = append(got, p.String())
		}
		s.Stats.Count("rule:C08.queries")
		if !sameStrs(sortedCopy(got), sortedKeys(md.PausedProto)) {
			s.violate("C08", "queries-report-sets", "PausedProtocols", fmt.Sprintf("query %v, model %v", got, sortedKeys(md.PausedProto)))
		}
	}
	for _, p := range []string{"PROTOCOL_IBC", "PROTOCOL_CCTP", "PROTOCOL_HYPERLANE", "PROTOCOL_INTERNAL"} {
		var ip forwardertypes.QueryIsProtocolPausedResponse
		if code, _ := s.abciQuery(qFwd+"IsProtocolPaused", &forwardertypes.QueryIsProtocolPausedRequest{ProtocolId: p}, &ip); code == 0 {
			s.Stats.Count("rule:C08.queries")
			if ip.IsPaused != md.PausedProto[p] {
				s.violate("C08", "queries-report-sets", "IsProtocolPaused", fmt.Sprintf("%s: query %v, model %v", p, ip.IsPaused, md.PausedProto[p]))
			}
		}
		var want []string
		for _, k := range sortedKeys(md.PausedCC) {
			if strings.HasPrefix(k, p+"|") {
				want = append(want, k[len(p)+1:])
			}
		}
		// paged walk with a drawn limit, forwards or in reverse
		limit := uint64(1 + r.Intn(len(want)+2))
		reverse := r.Intn(2) == 0
		var got []string
		var key []byte
		for step := 0; step < len(want)+3; step++ {
			var pc forwardertypes.QueryPausedCrossChainsResponse
			code, log := s.abciQuery(qFwd+"PausedCrossChains", &forwardertypes.QueryPausedCrossChainsRequest{ProtocolId: p, Pagination: &query.PageRequest{Key: key, Limit: limit, Reverse: reverse}}, &pc)
			if code != 0 {
				s.violate("C08", "queries-report-sets", "query-failed PausedCrossChains", log)
				break
			}
			got = append(got, pc.CounterpartyIds...)
			if pc.Pagination == nil || len(pc.Pagination.NextKey) == 0 {
				break
			}
			key = pc.Pagination.NextKey
		}
		s.Stats.Count("rule:C08.queries")
		if !sameStrs(sortedCopy(got), sortedCopy(want)) || len(got) != len(want) {
			fp := fmt.Sprintf("PausedCrossChains reverse=%v", reverse)
			var kp [][2]string
			for _, w := range want {
				kp = append(kp, [2]string{p, w})
			}
			if reverse && prefixSiblings(kp) {
				fp += " cause=reverse-start-key-is-byte-prefix-of-a-sibling-key"
			}
			s.violate("C08", "queries-report-sets", fp, fmt.Sprintf("%s limit=%d reverse=%v: query %v, model %v", p, limit, reverse, got, want))
		}
		for _, id := range want {
			var ic forwardertypes.QueryIsCrossChainPausedResponse
			if code, _ := s.abciQuery(qFwd+"IsCrossChainPaused", &forwardertypes.QueryIsCrossChainPausedRequest{ProtocolId: p, CounterpartyId: id}, &ic); code == 0 && !ic.IsPaused {
				s.violate("C08", "queries-report-sets", "IsCrossChainPaused", fmt.Sprintf("%s/%s paused in model, query says not", p, id))
			}
		}
	}
	var pa executortypes.QueryPausedActionsResponse
	if code, log := s.abciQuery(qExe+"PausedActions", &executortypes.QueryPausedActionsRequest{}, &pa); code != 0 {
		s.violate("C09", "queries-report-sets", "query-failed PausedActions", log)
	} else {
		var got []string
		for _, a := range pa.ActionIds {
			got = append(got, a.String())
		}
		s.Stats.Count("rule:C09.queries")
		if !sameStrs(sortedCopy(got), sortedKeys(md.PausedAct)) {
			s.violate("C09", "queries-report-sets", "PausedActions", fmt.Sprintf("query %v, model %v", got, sortedKeys(md.PausedAct)))
		}
	}
	var ia executortypes.QueryIsActionPausedResponse
	if code, _ := s.abciQuery(qExe+"IsActionPaused", &executortypes.QueryIsActionPausedRequest{ActionId: "ACTION_FEE"}, &ia); code == 0 {
		s.Stats.Count("rule:C09.queries")
		if ia.IsPaused != md.PausedAct["ACTION_FEE"] {
			s.violate("C09", "queries-report-sets", "IsActionPaused", fmt.Sprintf("query %v, model %v", ia.IsPaused, md.PausedAct["ACTION_FEE"]))
		}
	}
	var qp adaptertypes.QueryParamsResponse
	if code, log := s.abciQuery(qAda+"Params", &adaptertypes.QueryParamsRequest{}, &qp); code != 0 {
		s.violate("C18", "limit-in-force", "query-failed Params", log)
	} else {
		s.Stats.Count("rule:C18.query")
		if uint64(qp.Params.MaxPassthroughPayloadSize) != md.Limit {
			s.violate("C18", "limit-in-force", "params-query", fmt.Sprintf("query %d, model %d", qp.Params.MaxPassthroughPayloadSize, md.Limit))
		}
	}
}

// ---------------- C17 ----------------

func anyJSON(v any) string {
	bz, err := json.Marshal(v)
	if err != nil {
		return "marshal error: " + err.Error()
	}
	return string(bz)
}

func genJSON(g *orbitertypes.GenesisState) string {
	bz, err := json.Marshal(g)
	if err != nil {
		return "marshal error: " + err.Error()
	}
	return string(bz)
}

func (s *Sim) wipeOrbiterStore(ctx sdk.Context) int {
	st := ctx.KVStore(s.N.App.GetKey("orbiter"))
	var keys [][]byte
	it := st.Iterator(nil, nil)
	for ; it.Valid(); it.Next() {
		keys = append(keys, append([]byte{}, it.Key()...))
	}
	it.Close()
	for _, k := range keys {
		st.Delete(k)
	}
	return len(keys)
}

// tryInit runs InitGenesis on an emptied orbiter store of a branch; returns the branch and any failure.
func (s *Sim) tryInit(g *orbitertypes.GenesisState) (ctx sdk.Context, failure string) {
	ctx = s.N.Branch()
	s.wipeOrbiterStore(ctx)
	func() {
		defer func() {
			if r := recover(); r != nil {
				failure = fmt.Sprintf("%v", r)
			}
		}()
		s.N.App.OrbiterKeeper.InitGenesis(ctx, *g)
	}()
	return ctx, failure
}

func (s *Sim) auditGenesis(r *Rng, final bool) {
	ctx := s.N.Branch()
	g := s.N.App.OrbiterKeeper.ExportGenesis(ctx)
	s.Stats.Count("rule:C17.export-validates")
	if len(g.ForwarderGenesis.PausedCrossChainIds) > 0 && len(g.DispatcherGenesis.DispatchedAmounts) > 0 {
		s.Stats.Probe("genesis_audit_with_pauses_and_stats")
	}
	if err := g.Validate(); err != nil {
		s.violate("C17", "export-validates", "own-export-rejected", fmt.Sprintf("ValidateGenesis rejects the module's own export: %v\n%s", err, genJSON(g)))
		return
	}
	// (a) rebuilt-store twin
	tw, ok := s.roundTripAt(ctx, g, "")
	if !ok {
		return
	}
	// (c) behaviour: the same probe packets on the original and on the twin
	s.genesisBehaviour(ctx, tw, r)
	// accepted => initialisable: documents derived from the export
	for k := 0; k < 6; k++ {
		m, what := mutateGenesis(g, r)
		if m == nil {
			continue
		}
		s.Stats.Count("rule:C17.accepted-implies-initialisable")
		var verr error
		func() {
			defer func() {
				if rr := recover(); rr != nil {
					verr = fmt.Errorf("validate panicked: %v", rr)
				}
			}()
			verr = m.Validate()
		}()
		if verr != nil {
			continue
		}
		s.Stats.Count("mutated_genesis_accepted:" + what)
		mctx, failure := s.tryInit(m)
		if failure != "" {
			s.violate("C17", "accepted-implies-initialisable", "validated-genesis-fails-init mutation="+what, fmt.Sprintf("genesis accepted by validation cannot be initialised: %.300s\n%s", failure, genJSON(m)))
			continue
		}
		// the state such a document initialises is a state like any other: its export must round-trip too
		if g3 := s.N.App.OrbiterKeeper.ExportGenesis(mctx); g3.Validate() == nil {
			s.roundTripAt(mctx, g3, " state=initialised-from-document mutation="+what)
		}
	}
	if final {
		s.freshInstanceTwin(g)
	}
}

// roundTripAt: the export g of the state at ctx, initialised into an emptied store, must rebuild the very
// same raw store and re-export to the same document.
func (s *Sim) roundTripAt(ctx sdk.Context, g *orbitertypes.GenesisState, tag string) (sdk.Context, bool) {
	orig := s.N.DumpStore(ctx, "orbiter")
	tw, failure := s.tryInit(g)
	s.Stats.Count("rule:C17.rebuilt-store")
	if failure != "" {
		s.violate("C17", "export-initialises", "init-of-own-export-failed"+tag, fmt.Sprintf("InitGenesis of the export failed: %.300s", failure))
		return tw, false
	}
	if reb := s.N.DumpStore(tw, "orbiter"); !bytes.Equal(orig, reb) {
		s.violate("C17", "round-trip", "rebuilt-store-differs"+tag, fmt.Sprintf("raw orbiter store after export->init differs (%d vs %d bytes):\n original: %.400s\n rebuilt:  %.400s", len(orig), len(reb), orig, reb))
	}
	if g2 := s.N.App.OrbiterKeeper.ExportGenesis(tw); genJSON(g2) != genJSON(g) {
		s.violate("C17", "round-trip", "re-export-differs"+tag, fmt.Sprintf("export %.600s\nre-export %.600s", genJSON(g), genJSON(g2)))
	}
	return tw, true
}

func cloneGenesis(g *orbitertypes.GenesisState) *orbitertypes.GenesisState {
	bz, err := gogoproto.Marshal(g)
	if err != nil {
		panic(harnessErr("marshal genesis: %v", err))
	}
	var c orbitertypes.GenesisState
	if err := gogoproto.Unmarshal(bz, &c); err != nil {
		panic(harnessErr("unmarshal genesis: %v", err))
	}
	return &c
}

func mutateGenesis(g *orbitertypes.GenesisState, r *Rng) (*orbitertypes.GenesisState, string) {
	m := cloneGenesis(g)
	f, e, d := m.ForwarderGenesis, m.ExecutorGenesis, m.DispatcherGenesis
	switch r.Intn(11) {
	case 0:
		if len(f.PausedProtocolIds) == 0 {
			f.PausedProtocolIds = append(f.PausedProtocolIds, core.PROTOCOL_CCTP)
		}
		f.PausedProtocolIds = append(f.PausedProtocolIds, f.PausedProtocolIds[r.Intn(len(f.PausedProtocolIds))])
		return m, "duplicate-paused-protocol"
	case 1:
		if len(f.PausedCrossChainIds) == 0 {
			f.PausedCrossChainIds = append(f.PausedCrossChainIds, &core.CrossChainID{ProtocolId: core.PROTOCOL_CCTP, CounterpartyId: "0"})
		}
		x := *f.PausedCrossChainIds[r.Intn(len(f.PausedCrossChainIds))]
		f.PausedCrossChainIds = append(f.PausedCrossChainIds, &x)
		return m, "duplicate-paused-cross-chain"
	case 2:
		if len(e.PausedActionIds) == 0 {
			e.PausedActionIds = append(e.PausedActionIds, core.ACTION_FEE)
		}
		e.PausedActionIds = append(e.PausedActionIds, e.PausedActionIds[0])
		return m, "duplicate-paused-action"
	case 3:
		if len(d.DispatchedAmounts) == 0 {
			return nil, ""
		}
		d.DispatchedAmounts = append(d.DispatchedAmounts, d.DispatchedAmounts[r.Intn(len(d.DispatchedAmounts))])
		return m, "duplicate-amount-entry"
	case 4:
		if len(d.DispatchedCounts) == 0 {
			return nil, ""
		}
		d.DispatchedCounts = append(d.DispatchedCounts, d.DispatchedCounts[r.Intn(len(d.DispatchedCounts))])
		return m, "duplicate-count-entry"
	case 5:
		for i := len(f.PausedCrossChainIds) - 1; i > 0; i-- {
			j := r.Intn(i + 1)
			f.PausedCrossChainIds[i], f.PausedCrossChainIds[j] = f.PausedCrossChainIds[j], f.PausedCrossChainIds[i]
		}
		for i := len(d.DispatchedAmounts) - 1; i > 0; i-- {
			j := r.Intn(i + 1)
			d.DispatchedAmounts[i], d.DispatchedAmounts[j] = d.DispatchedAmounts[j], d.DispatchedAmounts[i]
		}
		return m, "reordered"
	case 6:
		ids := []string{"0", "4294967295", "4294967296", "+1", "01", "-1", "channel-0", "noble", "a:b", strings.Repeat("9", 32)}
		protos := []core.ProtocolID{core.PROTOCOL_IBC, core.PROTOCOL_CCTP, core.PROTOCOL_HYPERLANE, core.PROTOCOL_INTERNAL}
		f.PausedCrossChainIds = append(f.PausedCrossChainIds, &core.CrossChainID{ProtocolId: protos[r.Intn(4)], CounterpartyId: ids[r.Intn(len(ids))]})
		return m, "boundary-identifier"
	case 7:
		ids := []string{"0", "4294967295", "vault:1", "noble", "x"}
		protos := []core.ProtocolID{core.PROTOCOL_CCTP, core.PROTOCOL_HYPERLANE, core.PROTOCOL_INTERNAL}
		src := core.CrossChainID{ProtocolId: core.PROTOCOL_IBC, CounterpartyId: "channel-" + strconv.Itoa(r.Intn(9))}
		dst := core.CrossChainID{ProtocolId: protos[r.Intn(3)], CounterpartyId: ids[r.Intn(len(ids))]}
		amt := dispatchertypes.AmountDispatched{Incoming: sdkmath.NewInt(int64(r.Intn(1000))), Outgoing: sdkmath.NewInt(int64(r.Intn(1000)))}
		d.DispatchedAmounts = append(d.DispatchedAmounts, dispatchertypes.DispatchedAmountEntry{SourceId: &src, DestinationId: &dst, Denom: []string{"uusdc", "ibc/ABC", "a/b"}[r.Intn(3)], AmountDispatched: amt})
		d.DispatchedCounts = append(d.DispatchedCounts, dispatchertypes.DispatchCountEntry{SourceId: &src, DestinationId: &dst, Count: uint64(1 + r.Intn(5))})
		return m, "drawn-statistics-entry"
	case 8:
		m.AdapterGenesis.Params.MaxPassthroughPayloadSize = []uint32{0, 1, 4294967295}[r.Intn(3)]
		return m, "drawn-params"
	case 9:
		// more paused destinations under one protocol than any single message or default page can carry
		k := []int{99, 100, 101, 130, 257}[r.Intn(5)]
		proto := []core.ProtocolID{core.PROTOCOL_CCTP, core.PROTOCOL_HYPERLANE}[r.Intn(2)]
		have := map[string]bool{}
		for _, x := range f.PausedCrossChainIds {
			have[x.ProtocolId.String()+"|"+x.CounterpartyId] = true
		}
		for i := 0; i < k; i++ {
			id := strconv.Itoa(5000 + i)
			if !have[proto.String()+"|"+id] {
				f.PausedCrossChainIds = append(f.PausedCrossChainIds, &core.CrossChainID{ProtocolId: proto, CounterpartyId: id})
			}
		}
		return m, "many-paused-cross-chains"
	default:
		e.PausedActionIds = append(e.PausedActionIds, []core.ActionID{core.ACTION_SWAP, core.ACTION_FEE, core.ActionID(7)}[r.Intn(3)])
		return m, "drawn-paused-action"
	}
}

// genesisBehaviour: identical probe packets on the original branch and on the rebuilt twin
// must give identical acknowledgements and leave identical orbiter stores.
func (s *Sim) genesisBehaviour(orig, twin sdk.Context, r *Rng) {
	e := s.Env
	mk := func(p *MPayload, fee bool) string {
		if fee {
			p.HasFee, p.Fees = true, []MFee{{Recipient: e.FeeRcpt[1].Addr.String(), IsBPS: true, BPS: 30}}
		}
		return p.Canonical()
	}
	memos := []string{
		mk(&MPayload{Proto: "PROTOCOL_INTERNAL", Recipient: e.Rcpt[1].Addr.String(), Passthrough: []byte{}}, false),
		mk(&MPayload{Proto: "PROTOCOL_INTERNAL", Recipient: e.Rcpt[1].Addr.String(), Passthrough: []byte{}}, true),
	}
	if s.Model.Limit < 20000 {
		// one byte over the limit in force
		memos = append(memos, mk(&MPayload{Proto: "PROTOCOL_INTERNAL", Recipient: e.Rcpt[1].Addr.String(), Passthrough: bytes.Repeat([]byte{7}, int(s.Model.Limit)+1)}, false))
	}
	for _, d := range CCTPDomains {
		memos = append(memos, mk(&MPayload{Proto: "PROTOCOL_CCTP", Domain: d, MintRecipient: pad32(9), PTNull: true}, r.Intn(2) == 0))
	}
	for _, d := range HypDomains {
		memos = append(memos, mk(&MPayload{Proto: "PROTOCOL_HYPERLANE", Token: e.HypTokens[DenomUSDC].Bytes(), Domain: d, Recipient32: pad32(8), GasLimit: "0", MaxFeeDenom: DenomUSDC, MaxFeeAmt: "0", PTNull: true}, r.Intn(2) == 0))
	}
	stack := s.stackFull()
	for i, memo := range memos {
		sc := &Scenario{Pair: i % NumPairs, Denom: DenomUSDC, Amount: "50000", Memo: memo}
		pkt := s.scenarioPacket(sc).packet()
		run := func(base sdk.Context) (string, string) {
			cc, write := base.CacheContext()
			cc = cc.WithEventManager(sdk.NewEventManager())
			var ack []byte
			ok := false
			func() {
				defer func() {
					if rr := recover(); rr != nil {
						ack = []byte(fmt.Sprintf("panic: %v", rr))
					}
				}()
				a := stack.OnRecvPacket(cc, pkt, e.Relayers[0].Addr)
				ack, ok = a.Acknowledgement(), a.Success()
			}()
			if ok {
				write()
			}
			return string(ack), digestStore(base.KVStore(s.N.App.GetKey("orbiter")))
		}
		// each probe on its own sub-branch so that probes do not influence each other
		o, _ := orig.CacheContext()
		t, _ := twin.CacheContext()
		a1, d1 := run(o)
		a2, d2 := run(t)
		s.Stats.Count("rule:C17.behaviour")
		if a1 != a2 {
			s.violate("C17", "same-behaviour-after-reimport", "probe-ack-differs", fmt.Sprintf("probe %.200s: original %.200s / re-initialised %.200s", memo, a1, a2))
		} else if d1 != d2 {
			s.violate("C17", "same-behaviour-after-reimport", "statistics-do-not-continue", fmt.Sprintf("probe %.200s: orbiter store differs after the same transfer", memo))
		}
	}
}

// freshInstanceTwin: a new application instance, same environment genesis with the exported
// orbiter section substituted, real InitChain; the new instance must export the same genesis.
func (s *Sim) freshInstanceTwin(g *orbitertypes.GenesisState) {
	s.Stats.Count("rule:C17.fresh-instance")
	var failure string
	var g2 *orbitertypes.GenesisState
	func() {
		defer func() {
			if r := recover(); r != nil {
				failure = fmt.Sprintf("%v", r)
			}
		}()
		n2 := newGenesisOnlyNode(s.Env, g)
		g2 = n2.App.OrbiterKeeper.ExportGenesis(n2.Ctx())
	}()
	if failure != "" {
		s.violate("C17", "export-initialises", "fresh-chain-init-failed", fmt.Sprintf("InitChain with the exported orbiter genesis failed: %.300s", failure))
		return
	}
	if genJSON(g2) != genJSON(g) {
		s.violate("C17", "round-trip", "fresh-chain-re-export-differs", fmt.Sprintf("export %s\nfresh chain re-export %s", genJSON(g), genJSON(g2)))
	}
}

// ---------------- C10 ----------------

type msgMethod struct {
	Service, Method, Input string
	SignerField         string
}

// orbiterMsgMethods enumerates every method of every Msg service of the module from the
// protobuf descriptors linked into the binary (so a newly added RPC is included).
func orbiterMsgMethods() []msgMethod {
	var out []msgMethod
	files, err := gogoproto.MergedRegistry()
	if err != nil {
		panic(harnessErr("merged registry: %v", err))
	}
	files.RangeFiles(func(fd protoreflect.FileDescriptor) bool {
		if !strings.HasPrefix(string(fd.Package()), "noble.orbiter") {
			return true
		}
		sds := fd.Services()
		for i := 0; i < sds.Len(); i++ {
			sd := sds.Get(i)
			if sd.Name() != "Msg" {
				continue
			}
			ms := sd.Methods()
			for j := 0; j < ms.Len(); j++ {
				m := ms.Get(j)
				mm := msgMethod{Service: string(sd.FullName()), Method: string(m.Name()), Input: string(m.Input().FullName())}
				// the cosmos.msg.v1.signer option (field number 11110000) names the signer field
				opts := m.Input().Options()
				if opts != nil {
					raw := opts.ProtoReflect().GetUnknown()
					mm.SignerField = findStringOption(raw, 11110000)
					opts.ProtoReflect().Range(func(f protoreflect.FieldDescriptor, v protoreflect.Value) bool {
						if f.Number() == 11110000 && f.IsList() && v.List().Len() > 0 {
							mm.SignerField = v.List().Get(0).String()
						}
						return true
					})
				}
				if mm.SignerField == "" {
					mm.SignerField = "signer"
				}
				out = append(out, mm)
			}
		}
		return true
	})
	sort.Slice(out, func(i, j int) bool { return out[i].Input < out[j].Input })
	return out
}

func findStringOption(raw []byte, num int) string {
	// minimal protobuf wire scan for a length-delimited field
	for len(raw) > 0 {
		tag, n := uvarint(raw)
		if n <= 0 {
			return ""
		}
		raw = raw[n:]
		field, wt := int(tag>>3), int(tag&7)
		switch wt {
		case 0:
			_, n := uvarint(raw)
			if n <= 0 {
				return ""
			}
			raw = raw[n:]
		case 2:
			l, n := uvarint(raw)
			if n <= 0 || int(l) > len(raw[n:]) {
				return ""
			}
			if field == num {
				return string(raw[n : n+int(l)])
			}
			raw = raw[n+int(l):]
		case 1:
			if len(raw) < 8 {
				return ""
			}
			raw = raw[8:]
		case 5:
			if len(raw) < 4 {
				return ""
			}
			raw = raw[4:]
		default:
			return ""
		}
	}
	return ""
}

func uvarint(b []byte) (uint64, int) {
	var x uint64
	var s uint
	for i, c := range b {
		if c < 0x80 {
			return x | uint64(c)<<s, i + 1
		}
		x |= uint64(c&0x7f) << s
		s += 7
		if i > 9 {
			return 0, -1
		}
	}
	return 0, -1
}

var _ = protoregistry.GlobalFiles

// newMsg instantiates the Go message for a full proto name and sets its signer field.
func newMsg(full, signerField, signer string) sdk.Msg {
	t := gogoproto.MessageType(full)
	if t == nil {
		return nil
	}
	v := reflect.New(t.Elem())
	// find the Go field whose protobuf tag carries name=<signerField>
	for i := 0; i < t.Elem().NumField(); i++ {
		tag := t.Elem().Field(i).Tag.Get("protobuf")
		if strings.Contains(tag, "name="+signerField+",") || strings.HasSuffix(tag, "name="+signerField) {
			if v.Elem().Field(i).Kind() == reflect.String {
				v.Elem().Field(i).SetString(signer)
			}
		}
	}
	m, ok := v.Interface().(sdk.Msg)
	if !ok {
		return nil
	}
	return m
}

// fillValidBody gives the message a body that the authority could send successfully right now.
func (s *Sim) fillValidBody(m sdk.Msg, r *Rng) {
	md := s.Model
	pick := func(paused bool) string {
		for _, p := range []string{"PROTOCOL_CCTP", "PROTOCOL_HYPERLANE", "PROTOCOL_INTERNAL"} {
			if md.PausedProto[p] == paused {
				return p
			}
		}
		return "PROTOCOL_CCTP"
	}
	switch t := m.(type) {
	case *forwardertypes.MsgPauseProtocol:
		t.ProtocolId = pick(false)
	case *forwardertypes.MsgUnpauseProtocol:
		t.ProtocolId = pick(true)
	case *forwardertypes.MsgPauseCrossChains:
		t.ProtocolId, t.CounterpartyIds = "PROTOCOL_CCTP", []string{"4000000123"}
	case *forwardertypes.MsgUnpauseCrossChains:
		t.ProtocolId, t.CounterpartyIds = "PROTOCOL_CCTP", []string{"4000000123"}
		for _, k := range sortedKeys(md.PausedCC) {
			i := strings.Index(k, "|")
			t.ProtocolId, t.CounterpartyIds = k[:i], []string{k[i+1:]}
			break
		}
	case *forwardertypes.MsgReplaceDepositForBurn:
		t.OriginalMessage, t.OriginalAttestation, t.NewDestinationCaller, t.NewMintRecipient = r.Bytes(120), r.Bytes(65), pad32(1), pad32(2)
	case *executortypes.MsgPauseAction:
		t.ActionId = "ACTION_FEE"
	case *executortypes.MsgUnpauseAction:
		t.ActionId = "ACTION_FEE"
	case *adaptertypes.MsgUpdateParams:
		t.Params.MaxPassthroughPayloadSize = uint32(md.Limit) + 17
	}
}

// zeroOneField sets one drawn field (other than the signer) of a message to its zero value.
func zeroOneField(m sdk.Msg, signerField string, r *Rng) string {
	v := reflect.ValueOf(m).Elem()
	t := v.Type()
	var idx []int
	for i := 0; i < t.NumField(); i++ {
		tag := t.Field(i).Tag.Get("protobuf")
		if tag == "" || strings.Contains(tag, "name="+signerField+",") {
			continue
		}
		if v.Field(i).CanSet() {
			idx = append(idx, i)
		}
	}
	if len(idx) == 0 {
		return "none"
	}
	i := idx[r.Intn(len(idx))]
	v.Field(i).Set(reflect.Zero(t.Field(i).Type))
	return t.Field(i).Name
}

// forgedSimulation: nobody needs the authority's key to have the node *simulate* a message that names the authority
// (gas estimation skips signature verification and runs the real handlers on a branch that is thrown away). Such a
// run is not a message of the authority: afterwards the node must behave exactly as before. Differential, no model:
// each admin message is executed on a throw-away branch before and after the forged simulation of the same message.
func (s *Sim) forgedSimulation(r *Rng) {
	e := s.Env
	auth := e.Authority.Addr.String()
	msgs := []sdk.Msg{
		&executortypes.MsgPauseAction{Signer: auth, ActionId: "ACTION_FEE"},
		&executortypes.MsgUnpauseAction{Signer: auth, ActionId: "ACTION_FEE"},
		&forwardertypes.MsgPauseCrossChains{Signer: auth, ProtocolId: "PROTOCOL_CCTP", CounterpartyIds: []string{fmt.Sprint(r.Intn(9))}},
		&adaptertypes.MsgUpdateParams{Signer: auth, Params: adaptertypes.Params{MaxPassthroughPayloadSize: uint32(1 + r.Intn(5000))}},
	}
	for _, p := range []string{"PROTOCOL_CCTP", "PROTOCOL_HYPERLANE", "PROTOCOL_INTERNAL"} {
		msgs = append(msgs, &forwardertypes.MsgPauseProtocol{Signer: auth, ProtocolId: p}, &forwardertypes.MsgUnpauseProtocol{Signer: auth, ProtocolId: p})
	}
	outcome := func(m sdk.Msg) string {
		br := s.N.Branch()
		if err := s.adminOnBranch(br, m); err != nil {
			return "refused"
		}
		return "ok " + digestStore(br.KVStore(s.N.App.GetKey("orbiter")))
	}
	for _, m := range msgs {
		before := outcome(m)
		_, err := s.N.SimulateForged(e.Impostor, e.Authority, 2_000_000, m)
		s.Stats.Fault("forged_simulation_naming_the_authority")
		if err == nil {
			s.Stats.Probe("forged_simulation_ran_ok")
		}
		s.Stats.Count("rule:C10.forged-simulation-changes-nothing")
		if after := outcome(m); after != before {
			s.violate("C10", "only-authority", "behaviour-changed-by-a-forged-simulation msg="+sdk.MsgTypeURL(m),
				fmt.Sprintf("%s naming the authority was simulated on the node by %s (no valid signature, nothing committed); the authority's own message gave %.12s before and %.12s afterwards", sdk.MsgTypeURL(m), e.Impostor.Addr, before, after))
		}
	}
}

func (s *Sim) auditImpostor(r *Rng) {
	s.forgedSimulation(r)
	e := s.Env
	auth := e.Authority.Addr.String()
	methods := orbiterMsgMethods()
	if len(methods) < 8 {
		panic(harnessErr("only %d Msg methods enumerated from the descriptors", len(methods)))
	}
	cos, _ := sdk.Bech32ifyAddressBytes("cosmos", e.Authority.Addr)
	signers := []string{
		e.Impostor.Addr.String(), e.Noble[0].Addr.String(), e.Circle.Addr.String(), e.Relayers[0].Addr.String(),
		e.Orbiter.String(), e.Dust.String(), e.CCTPMod.String(), strings.ToUpper(e.Orbiter.String()),
		"", " ", "noble1", "noble", auth[:len(auth)-1], auth + "x", " " + auth, auth + " ", auth[5:], cos,
		strings.ToUpper(auth[:8]) + auth[8:], "orbiter", "authority", "\x00", auth + "," + e.Impostor.Addr.String(), strings.Repeat("a", 200),
	}
	for _, mm := range methods {
		if s.N.App.MsgServiceRouter().HandlerByTypeURL("/"+mm.Input) == nil {
			continue // descriptor present but no handler registered in this app
		}
		s.Stats.States["rpc:"+mm.Input] = true
		for k := 0; k < 5; k++ {
			signer := signers[r.Intn(len(signers))]
			msg := newMsg(mm.Input, mm.SignerField, signer)
			if msg == nil {
				panic(harnessErr("cannot instantiate %s", mm.Input))
			}
			body := "valid"
			switch r.Intn(4) {
			case 0:
				body = "zero"
			case 1:
				// a valid body with one drawn non-signer field emptied (e.g. an empty counterparty list)
				s.fillValidBody(msg, r)
				body = "valid-with-empty-field:" + zeroOneField(msg, mm.SignerField, r)
			default:
				s.fillValidBody(msg, r)
			}
			execMode := sdk.ExecModeFinalize
			switch r.Intn(6) {
			case 0:
				execMode = sdk.ExecModeSimulate // the check holds in whatever mode the handler runs
			case 1:
				execMode = sdk.ExecModeCheck
			}
			call := func(m sdk.Msg) (err error, changed bool) {
				br := s.N.Branch().WithExecMode(execMode)
				before := s.N.DumpStore(br, "orbiter")
				cctpBefore := digestStore(br.KVStore(s.N.App.GetKey("cctp")))
				func() {
					defer func() {
						if rr := recover(); rr != nil {
							err = fmt.Errorf("panic: %v", rr)
						}
					}()
					_, err = s.N.App.MsgServiceRouter().Handler(m)(br, m)
				}()
				changed = !bytes.Equal(before, s.N.DumpStore(br, "orbiter")) || cctpBefore != digestStore(br.KVStore(s.N.App.GetKey("cctp")))
				return err, changed
			}
			hist := ""
			if r.Intn(3) == 0 {
				// the rightful authority uses some RPC just before (on a branch of its own): what it was allowed
				// to do must not rub off on whoever comes next
				am := methods[r.Intn(len(methods))]
				if s.N.App.MsgServiceRouter().HandlerByTypeURL("/"+am.Input) != nil {
					if a := newMsg(am.Input, am.SignerField, auth); a != nil {
						s.fillValidBody(a, r)
						call(a)
						hist = " after-an-authority-call"
					}
				}
			}
			attempts := 1
			if r.Intn(3) == 0 {
				attempts = 2 + r.Intn(2) // the same message again: a refusal is not worn down by repetition
			}
			for at := 1; at <= attempts; at++ {
				err, changed := call(msg)
				s.Stats.Count("rule:C10.foreign-signer")
				s.Stats.States["imp:"+mm.Method+"|"+signerClass(signer, e)+"|"+body+"|"+fmt.Sprint(execMode)] = true
				if err == nil || changed {
					fp := fmt.Sprintf("%s accepted signer-class=%s", mm.Method, signerClass(signer, e))
					if execMode != sdk.ExecModeFinalize {
						fp += fmt.Sprintf(" exec-mode=%d", execMode)
					}
					if at > 1 {
						fp += " on-repeated-attempt"
					}
					s.violate("C10", "only-authority", fp, fmt.Sprintf("%s with signer %q (body %s, attempt %d%s): err=%v state-changed=%v", mm.Input, signer, body, at, hist, err, changed))
					break
				}
			}
		}
	}
}

func signerClass(sg string, e *Env) string {
	auth := e.Authority.Addr.String()
	switch {
	case sg == "":
		return "empty"
	case sg == e.Orbiter.String() || sg == e.Dust.String() || sg == e.CCTPMod.String() || sg == strings.ToUpper(e.Orbiter.String()):
		return "module-account"
	case strings.Contains(sg, auth) || strings.Contains(auth, sg) || strings.Contains(strings.ToLower(sg), auth[5:15]):
		return "authority-fragment-or-padding"
	case e.addrName[sg] != "":
		return "other-account"
	}
	return "malformed"
}

// ---------------- C20 ----------------

// lenientValue: every number a spelling could be taken to mean (sign, leading zeros, base prefixes,
// underscores stripped). Used only to decide which probe destination a spelling names.
func lenientValue(sid string) (uint64, bool) {
	t := strings.TrimSpace(sid)
	t = strings.TrimPrefix(t, "+")
	t = strings.ReplaceAll(t, "_", "")
	if v, err := strconv.ParseUint(t, 0, 64); err == nil {
		return v, true
	}
	t2 := strings.TrimLeft(t, "0")
	if t2 == "" && t != "" {
		return 0, true
	}
	if v, err := strconv.ParseUint(t2, 10, 64); err == nil {
		return v, true
	}
	return 0, false
}

var idSpellings = []string{"0", "1", "2", "3", "5", "10", "42161", "+1", "01", "001", "-1", "-0", "+0", "00", "1 ", " 1", "0x1", "0X1", "0b1", "0o1", "1_0", "1e0", "1.0", "４", "١", "4294967295", "4294967296", "04294967295", "18446744073709551615", "18446744073709551616", "99999999999999999999999999999999", "channel-0", "1:1", ":1", "1:", "noble", "", "a", "0x", "+", "-", "1\n", "1\x00"}

func (s *Sim) auditIDs(r *Rng) {
	e := s.Env
	auth := e.Authority.Addr.String()
	for _, proto := range []string{"PROTOCOL_CCTP", "PROTOCOL_HYPERLANE"} {
		accepted := map[string]bool{}
		for k := 0; k < 12; k++ {
			sid := idSpellings[r.Intn(len(idSpellings))]
			switch r.Intn(6) {
			case 0: // ten decimal digits beyond 2^32-1
				sid = strconv.FormatUint(4294967296+r.U64()%5705032704, 10)
			case 1: // in range, arbitrary
				sid = strconv.FormatUint(r.U64()%4294967296, 10)
			case 2: // the channels this chain has seen traffic on
				sid = fmt.Sprintf("channel-%d", r.Intn(7))
			}
			if s.Model.PausedCC[proto+"|"+sid] {
				continue
			}
			br := s.N.Branch()
			msg := &forwardertypes.MsgPauseCrossChains{Signer: auth, ProtocolId: proto, CounterpartyIds: []string{sid}}
			_, err := s.N.App.MsgServiceRouter().Handler(msg)(br, msg)
			s.Stats.Count("rule:C20.accepted-id-is-canonical")
			s.Stats.States["id:"+proto+"|"+sid+"|"+fmt.Sprint(err == nil)] = true
			if err != nil {
				continue
			}
			accepted[sid] = true
			if !canonDomain(sid) {
				s.violate("C20", "accepted-id-is-canonical", "noncanonical id accepted by pause message", fmt.Sprintf("%s counterparty %q accepted", proto, sid))
				continue
			}
			// R2: the pause covers what it names
			v, _ := strconv.ParseUint(sid, 10, 32)
			s.pauseCovers(br, proto, uint32(v), sid, "")
			// ... and keeps meaning the same destination when the chain is restarted through its exported genesis
			if k%3 == 0 {
				if g := s.N.App.OrbiterKeeper.ExportGenesis(br); g.Validate() == nil {
					if tw, failure := s.tryInit(g); failure == "" {
						s.pauseCovers(tw, proto, uint32(v), sid, " after export and re-initialisation")
					}
				}
			}
		}
		// R3: no two accepted strings denote the same destination
		byVal := map[uint64]string{}
		for _, sid := range sortedKeys(accepted) {
			if v, ok := lenientValue(sid); ok {
				if other, dup := byVal[v]; dup {
					s.violate("C20", "no-two-ids-same-destination", "two accepted spellings of one domain", fmt.Sprintf("%s: %q and %q both accepted", proto, other, sid))
				}
				byVal[v] = sid
			}
		}
		// queries and genesis validation accept the same set
		for k := 0; k < 6; k++ {
			sid := idSpellings[r.Intn(len(idSpellings))]
			var ic forwardertypes.QueryIsCrossChainPausedResponse
			code, _ := s.abciQuery(qFwd+"IsCrossChainPaused", &forwardertypes.QueryIsCrossChainPausedRequest{ProtocolId: proto, CounterpartyId: sid}, &ic)
			s.Stats.Count("rule:C20.accepted-id-is-canonical")
			if code == 0 && !canonDomain(sid) {
				s.violate("C20", "accepted-id-is-canonical", "noncanonical id accepted by query", fmt.Sprintf("IsCrossChainPaused(%s, %q) answered", proto, sid))
			}
			pid := core.ProtocolID(protoNum(proto))
			g := orbitertypes.DefaultGenesisState()
			g.ForwarderGenesis.PausedCrossChainIds = []*core.CrossChainID{{ProtocolId: pid, CounterpartyId: sid}}
			s.Stats.Count("rule:C20.accepted-id-is-canonical")
			if g.Validate() == nil && !canonDomain(sid) {
				s.violate("C20", "accepted-id-is-canonical", "noncanonical id accepted by genesis validation", fmt.Sprintf("%s counterparty %q", proto, sid))
			}
		}
	}
	// textual form of a pair parses back to the same pair; distinct pairs have distinct forms (sampled)
	cps := []string{"0", "7", "4294967295", "noble", "vault:1", "a:b:c", ":", "x", "channel-0", "channel-18446744073709551615"}
	seen := map[string]string{}
	for _, pn := range []int{1, 2, 3, 4} {
		for _, cp := range cps {
			id, err := core.NewCrossChainID(core.ProtocolID(pn), cp)
			if err != nil {
				continue
			}
			s.Stats.Count("rule:C20.round-trip")
			form := id.ID()
			back, perr := core.ParseCrossChainID(form)
			if perr != nil || back.ProtocolId != id.ProtocolId || back.CounterpartyId != id.CounterpartyId {
				s.violate("C20", "textual-form-round-trips", "valid pair does not parse back", fmt.Sprintf("(%d,%q) -> %q -> %v (%v)", pn, cp, form, back, perr))
			}
			key := fmt.Sprintf("%d|%s", pn, cp)
			if o, dup := seen[form]; dup && o != key {
				s.violate("C20", "distinct-pairs-distinct-forms", "two pairs share a form", fmt.Sprintf("%s and %s -> %q", o, key, form))
			}
			seen[form] = key
		}
	}
}

// pauseCovers: on a branch where (proto, sid) was just paused, a canonical transfer to that
// domain must be refused — provided the same transfer succeeds without the pause.
func (s *Sim) pauseCovers(paused sdk.Context, proto string, dom uint32, sid string, tag string) {
	e := s.Env
	var p *MPayload
	switch proto {
	case "PROTOCOL_CCTP":
		p = &MPayload{Proto: proto, Domain: dom, MintRecipient: pad32(9), PTNull: true}
	default:
		p = &MPayload{Proto: proto, Token: e.HypTokens[DenomUSDC].Bytes(), Domain: dom, Recipient32: pad32(8), GasLimit: "0", MaxFeeDenom: DenomUSDC, MaxFeeAmt: "0", PTNull: true}
	}
	sc := &Scenario{Pair: 0, Denom: DenomUSDC, Amount: "31337", Memo: p.Canonical()}
	pkt := s.scenarioPacket(sc).packet()
	stack := s.stackFull()
	deliver := func(base sdk.Context) (ok bool) {
		cc, _ := base.CacheContext()
		defer func() {
			if rr := recover(); rr != nil {
				ok = false
			}
		}()
		return stack.OnRecvPacket(cc.WithEventManager(sdk.NewEventManager()), pkt, e.Relayers[0].Addr).Success()
	}
	if !deliver(s.N.Branch()) {
		return // not a live destination right now (unknown domain, environment fault, protocol paused)
	}
	s.Stats.Count("rule:C20.pause-covers-domain")
	s.Stats.Probe("pause_then_probe_live_domain")
	if deliver(paused) {
		s.violate("C20", "pause-covers-what-it-names", "paused id does not stop transfers to that domain"+tag, fmt.Sprintf("after a successful pause of %s %q%s a transfer to domain %d still succeeds", proto, sid, tag, dom))
	}
}

// queryFaultPass (mode B): the statistics queries under failures of the orbiter's own store. Every listing and one
// direct lookup are first answered fault-free by the interposed keeper's query server; then every store call of the
// query fails once. A view is faithful or absent: the query may fail (or abort), but when it answers, the answer is
// the fault-free one - never a page with entries silently left out, repeated or replaced.
func (s *Sim) queryFaultPass(r *Rng) {
	if s.ModeB == nil {
		return
	}
	qs := dispatchercomp.NewQueryServer(s.ModeB.K.Dispatcher())
	type q struct {
		name string
		run  func(ctx sdk.Context) (string, error)
	}
	var qsList []q
	page := func() *query.PageRequest { return &query.PageRequest{Limit: 200, CountTotal: true} }
	for _, pid := range []string{"PROTOCOL_IBC", "PROTOCOL_CCTP", "PROTOCOL_HYPERLANE", "PROTOCOL_INTERNAL"} {
		pid := pid
		qsList = append(qsList,
			q{"DispatchedCountsByDestinationProtocolID(" + pid + ")", func(ctx sdk.Context) (string, error) {
				resp, err := qs.DispatchedCountsByDestinationProtocolID(ctx, &dispatchertypes.QueryDispatchedCountsByProtocolIDRequest{ProtocolId: pid, Pagination: page()})
				if err != nil {
					return "", err
				}
				return resp.String(), nil
			}},
			q{"DispatchedCountsBySourceProtocolID(" + pid + ")", func(ctx sdk.Context) (string, error) {
				resp, err := qs.DispatchedCountsBySourceProtocolID(ctx, &dispatchertypes.QueryDispatchedCountsByProtocolIDRequest{ProtocolId: pid, Pagination: page()})
				if err != nil {
					return "", err
				}
				return resp.String(), nil
			}},
			q{"DispatchedAmountsByDestinationProtocolID(" + pid + ")", func(ctx sdk.Context) (string, error) {
				resp, err := qs.DispatchedAmountsByDestinationProtocolID(ctx, &dispatchertypes.QueryDispatchedAmountsByProtocolIDRequest{ProtocolId: pid, Pagination: page()})
				if err != nil {
					return "", err
				}
				return resp.String(), nil
			}},
			q{"DispatchedAmountsBySourceProtocolID(" + pid + ")", func(ctx sdk.Context) (string, error) {
				resp, err := qs.DispatchedAmountsBySourceProtocolID(ctx, &dispatchertypes.QueryDispatchedAmountsByProtocolIDRequest{ProtocolId: pid, Pagination: page()})
				if err != nil {
					return "", err
				}
				return resp.String(), nil
			}})
	}
	g := s.N.App.OrbiterKeeper.ExportGenesis(s.N.Ctx())
	if cs := g.DispatcherGenesis.DispatchedCounts; len(cs) > 0 {
		c := cs[r.Intn(len(cs))]
		qsList = append(qsList, q{"DispatchedCounts(direct)", func(ctx sdk.Context) (string, error) {
			resp, err := qs.DispatchedCounts(ctx, &dispatchertypes.QueryDispatchedCountsRequest{SourceProtocolId: c.SourceId.ProtocolId.String(), SourceCounterpartyId: c.SourceId.CounterpartyId, DestinationProtocolId: c.DestinationId.ProtocolId.String(), DestinationCounterpartyId: c.DestinationId.CounterpartyId})
			if err != nil {
				return "", err
			}
			return resp.String(), nil
		}})
	}
	p := s.ModeB.Plan
	defer func() { p.Store = false; s.ModeB.Reset(nil) }()
	call := func(f func(ctx sdk.Context) (string, error), fail map[int]int) (out string, err error, calls []CallRec, fired int) {
		s.ModeB.Reset(fail)
		p.Store = true
		func() {
			defer func() {
				if rec := recover(); rec != nil {
					err = fmt.Errorf("query aborted: %v", rec) // baseapp recovers a panicking query handler: the view is absent
				}
			}()
			out, err = f(s.N.Branch())
		}()
		calls, fired = append([]CallRec(nil), p.Calls...), len(p.Fired)
		p.Store = false
		s.ModeB.Reset(nil)
		return
	}
	for _, qq := range qsList {
		want, err0, calls, _ := call(qq.run, nil)
		if err0 != nil {
			continue // refused fault-free (e.g. a protocol that cannot be a source): nothing to compare
		}
		idxs := make([]int, 0, len(calls))
		for i, c := range calls {
			if strings.HasPrefix(c.Site, "store.") {
				idxs = append(idxs, i)
			}
		}
		for len(idxs) > 24 { // long listings: a drawn subset of their store calls
			k := r.Intn(len(idxs))
			idxs = append(idxs[:k], idxs[k+1:]...)
		}
		for _, i := range idxs {
			got, err, fcalls, fired := call(qq.run, map[int]int{i: faultBefore})
			if fired == 0 {
				continue
			}
			s.Stats.Count("rule:C13.faithful-or-absent-under-store-fault")
			s.Stats.Fault("injected_error:" + storeOp2(calls[i].Site) + " (query)")
			if err == nil && got != want {
				site := "?"
				if i < len(fcalls) {
					site = occurrence(fcalls, i)
				}
				s.violate("C13", "listing-and-pagination", "wrong-answer-instead-of-error-under-store-fault method="+strings.SplitN(qq.name, "(", 2)[0],
					fmt.Sprintf("%s: store call %s failed during the query and it answered\n  %s\ninstead of failing or answering\n  %s", qq.name, site, got, want))
			}
		}
	}
}

func storeOp2(site string) string {
	if i := strings.Index(site, "@"); i >= 0 {
		return site[:i]
	}
	return site
}
