package main

// Workload and schedule generator. Every choice is drawn from the run's PRNG.
// Payloads are generated as model structures and serialised by the model's canonical
// serialiser; for the canonical class the result is cross-checked against what the
// module's own public constructors + MarshalJSON produce (harness self-check).

import (
	"encoding/base64"
	"encoding/json"
	"fmt"
	"math/big"
	"sort"
	"strings"

	sdkmath "cosmossdk.io/math"
	sdk "github.com/cosmos/cosmos-sdk/types"

	orbitertypes "github.com/noble-assets/orbiter/v2/types"
	actiontypes "github.com/noble-assets/orbiter/v2/types/controller/action"
	forwardingtypes "github.com/noble-assets/orbiter/v2/types/controller/forwarding"
	hyputil "github.com/bcp-innovations/hyperlane-cosmos/util"
	"github.com/noble-assets/orbiter/v2/types/core"
)

// Profile: the swarm configuration space for one property check.
type Profile struct {
	Name         string
	Own          map[string]bool // properties whose violations this check reports
	StepsMin     int
	StepsMax     int
	W            map[string]int // op-kind weights
	ClassW       map[string]int // canon | refuse | free | plain | nearmiss | exotic
	RouteW       []int          // cctp, hyperlane, internal
	FeeW         []int          // none, one, several, five, boundary
	ScaleW       []int          // small, bps-boundary, 64-bit, huge
	PassW        []int          // none, within, at-limit, over
	GasCutP      float64
	BatchP       float64
	DupP         float64
	TimeoutP     float64
	StoreDigests bool
	Shadows      []string // differential variants to run before each delivery
	Checkpoint   []string // audits run at checkpoints: queries, genesis, impostor, ids
	RefuseKinds  []string // restrict must-refuse edits (prefix match on property), empty = all
	SingleTxP    float64  // probability that a delivery gets a block of its own
	EmptyFeeP    float64  // probability of a fee action with an empty list
	InitLimitP   float64  // probability that the run starts by raising the passthrough limit
	ModeBEvery   int      // k>0: every k-th run uses the interposed (mode B) node
	SatGenesisEvery int   // k>0: one run in k starts from a genesis whose dispatch statistics are saturated
	BigBatchP    float64  // probability that a pause-cross-chains message carries a batch around the limit of 100 identifiers
	CrashP       float64  // probability that the node crashes between executing and committing a block (and re-executes it after the restart)
	ByzPlainP    float64  // probability that a byzantine packet names a receiver other than the orbiter account
	BigPassP     float64  // probability of a passthrough payload of 15000-23000 bytes
	ModDepositP  float64  // probability that a deposit goes to the address of a bridge's module account instead of the orbiter's
	SimP         float64  // probability that a block's transactions are first simulated on the node (gas estimation; discarded)
	GhostTokenP  float64  // per step: probability of starting the "token created only in a simulation" scenario
	InjectP      float64  // mode-B runs: probability that a lone delivery gets an injected downstream failure
	Replays      int      // C19: extra replays of each trace
	// evidence / packaging
	Level              string
	EvidenceRule       string
	DistinctFrom       string
	NonTrivialCounters []string
	Assumptions        []string
	Special            func(prof *Profile, seed uint64) *RunResult
	SpecialReplay      func(prof *Profile, rf *ReplayFile) *RunResult
	CrossProcess       func(seed uint64) bool
	SpecialEvery       int // 0/1: every run is special; k>1: every k-th run is special, the others are plain simulated runs
	TraceCheck         func(prof *Profile, trace []Op) *RunResult // how a trace is judged when shrinking/replaying (default: one replay)
}

type genState struct {
	r        *Rng
	nextID   int
	prof     *Profile
	// per-run swarm draws
	w        map[string]int
	classW   map[string]int
	routeW   []int
	feeW     []int
	scaleW   []int
	gasCutP  float64
	started  bool
	script   []func(s *Sim) (Op, bool) // a drawn multi-step scenario in progress: its remaining steps come first
	memoPool []memoEntry
	otherTokenDenom string
	scriptTight bool // the steps of the scenario in progress follow each other without other ops in between
	noIGP    bool // scenario generators that need a known-good destination avoid the fee-charging Hyperlane token
}

type memoEntry struct{ memo, denom string }

func newGen(r *Rng, prof *Profile) *genState {
	g := &genState{r: r, prof: prof, nextID: 1, w: map[string]int{}, classW: map[string]int{}}
	// swarm: per run, scale each weight by a random factor and switch some kinds off
	for _, k := range sortedKeys(prof.W) {
		v := prof.W[k]
		f := []int{0, 1, 1, 2, 3}[r.Intn(5)]
		if k == "send" || k == "deliver" || k == "block" {
			f = 1 + r.Intn(3)
		}
		g.w[k] = v * f
	}
	for _, k := range sortedKeys(prof.ClassW) {
		v := prof.ClassW[k]
		g.classW[k] = v * []int{0, 1, 1, 2}[r.Intn(4)]
	}
	if g.classW["canon"] == 0 {
		g.classW["canon"] = prof.ClassW["canon"]
	}
	scale := func(w []int) []int {
		o := make([]int, len(w))
		nz := 0
		for i, v := range w {
			o[i] = v * []int{0, 1, 1, 2}[r.Intn(4)]
			nz += o[i]
		}
		if nz == 0 {
			copy(o, w)
		}
		return o
	}
	g.routeW, g.feeW, g.scaleW = scale(prof.RouteW), scale(prof.FeeW), scale(prof.ScaleW)
	g.gasCutP = prof.GasCutP * []float64{0, 0.5, 1, 2}[r.Intn(4)]
	return g
}

func (g *genState) id() int { g.nextID++; return g.nextID - 1 }

// ---------- payload construction ----------

func (g *genState) rcptBytes() []byte {
	b := make([]byte, 32)
	copy(b[12:], g.r.Bytes(20))
	if allZero(b) {
		b[31] = 1
	}
	return b
}

// genAmount returns an amount for a transfer of the given denom.
func (g *genState) genAmount(denom string, bps []uint64) *big.Int {
	r := g.r
	sc := r.Pick(g.scaleW)
	if denom != DenomHuge && sc == 3 {
		sc = 2
	}
	switch sc {
	case 0:
		return big.NewInt(int64(1 + r.Intn(1_000_000)))
	case 1: // A*bps within +-1 of a multiple of 10000
		b := uint64(1 + r.Intn(10000))
		if len(bps) > 0 {
			b = bps[r.Intn(len(bps))]
		}
		k := int64(1 + r.Intn(5000))
		// A ~ k*10000/b
		a := new(big.Int).Quo(big.NewInt(k*10000), new(big.Int).SetUint64(b))
		a.Add(a, big.NewInt(int64(r.Intn(3)-1)))
		if a.Sign() <= 0 {
			a = big.NewInt(1)
		}
		return a
	case 2:
		xs := []string{"1", "2", "9999", "10000", "10001", "999999999999", "1000000000000", "1000000000001", "4294967295", "4294967296"}
		if denom == DenomUSDC || denom == DenomOther {
			a, _ := new(big.Int).SetString(xs[r.Intn(len(xs))], 10)
			return a
		}
		xs = append(xs, "9223372036854775807", "9223372036854775808", "18446744073709551615", "18446744073709551616")
		a, _ := new(big.Int).SetString(xs[r.Intn(len(xs))], 10)
		return a
	default:
		one := big.NewInt(1)
		xs := []*big.Int{
			new(big.Int).Lsh(one, 255),
			new(big.Int).Sub(new(big.Int).Lsh(one, 255), one),
			new(big.Int).Set(max256),
			new(big.Int).Lsh(one, 200),
			new(big.Int).Quo(max256, big.NewInt(10000)),
			new(big.Int).Add(new(big.Int).Quo(max256, big.NewInt(10000)), one),
			new(big.Int).Lsh(one, 128),
		}
		return xs[r.Intn(len(xs))]
	}
}

func (g *genState) feeRecipient(s *Sim) string {
	r := g.r
	switch r.Intn(20) {
	case 0:
		return s.Env.Orbiter.String()
	case 1:
		return s.Env.Dust.String()
	case 2:
		return strings.ToUpper(s.Env.FeeRcpt[r.Intn(NumFeeRcpt)].Addr.String())
	case 3:
		return s.Env.Rcpt[r.Intn(NumRecipient)].Addr.String()
	case 4:
		return escrowA(r.Intn(NumPairs)).String()
	}
	return s.Env.FeeRcpt[r.Intn(NumFeeRcpt)].Addr.String()
}

// genFees returns a fee list valid for amount A (shape drawn), or nil.
func (g *genState) genFees(s *Sim, A *big.Int) (has bool, fees []MFee) {
	r := g.r
	shape := r.Pick(g.feeW)
	n := 0
	switch shape {
	case 0:
		return false, nil
	case 1:
		n = 1
	case 2:
		n = 2 + r.Intn(2)
	case 3:
		n = 5
	case 4:
		n = 1 + r.Intn(3)
	}
	if r.Bool(g.prof.EmptyFeeP) {
		return true, nil // fee action with an empty list
	}
	budget := new(big.Int).Sub(A, big.NewInt(1)) // total must stay <= A-1
	total := new(big.Int)
	repeat := r.Intn(3) == 0
	first := ""
	for i := 0; i < n; i++ {
		rc := g.feeRecipient(s)
		if i == 0 {
			first = rc
		} else if repeat && r.Intn(2) == 0 {
			rc = first
		}
		var f MFee
		if r.Intn(2) == 0 {
			bps := uint64(1 + r.Intn(300))
			if r.Intn(6) == 0 {
				bps = uint64(1 + r.Intn(10000))
			}
			if r.Intn(30) == 0 {
				bps = 10000
			}
			f = MFee{Recipient: rc, IsBPS: true, BPS: bps}
		} else {
			amt := big.NewInt(int64(1 + r.Intn(1000)))
			if shape == 4 && i == n-1 {
				// boundary: make the total land exactly on A-1 when possible
				rest := new(big.Int).Sub(budget, total)
				if rest.Sign() > 0 {
					amt = rest
				}
			}
			f = MFee{Recipient: rc, Amount: amt}
		}
		// keep the list valid: drop entries that would push the total to A or beyond
		var c *big.Int
		if f.IsBPS {
			c = new(big.Int).Mul(A, new(big.Int).SetUint64(f.BPS))
			if c.Cmp(max256) > 0 {
				continue
			}
			c.Quo(c, big.NewInt(10000))
		} else {
			c = f.Amount
		}
		if new(big.Int).Add(total, c).Cmp(budget) > 0 {
			continue
		}
		total.Add(total, c)
		fees = append(fees, f)
	}
	return true, fees
}

// genRoute fills the forwarding part of a payload for a known-good destination.
func (g *genState) genRoute(s *Sim, p *MPayload, denom string) {
	r := g.r
	route := r.Pick(g.routeW)
	if route == 0 && denom != DenomUSDC {
		route = 2
	}
	if route == 1 {
		if _, ok := s.Env.HypTokens[denom]; (!ok && denom != DenomOther) || (g.noIGP && denom == DenomOther) {
			route = 2
		}
	}
	switch route {
	case 0:
		p.Proto = "PROTOCOL_CCTP"
		p.Domain = CCTPDomains[r.Intn(len(CCTPDomains))]
		p.MintRecipient = g.rcptBytes()
		if r.Intn(3) == 0 {
			p.DestCaller = g.rcptBytes()
		}
		p.PTNull = true
	case 1:
		p.Proto = "PROTOCOL_HYPERLANE"
		p.Domain = HypDomains[r.Intn(len(HypDomains))]
		p.Recipient32 = g.rcptBytes()
		p.PTNull = true
		if denom == DenomOther {
			// the token behind the mailbox with an interchain gas paymaster: the fee (in stake) is charged to the
			// sender of the remote transfer, i.e. the orbiter account
			p.Token = s.Env.HypIGPToken.Bytes()
			p.GasLimit, p.MaxFeeDenom, p.MaxFeeAmt = []string{"0", "0", "70000"}[r.Intn(3)], DenomStake, []string{"100000", "51000", "50999", "1000000"}[r.Intn(4)]
		} else {
			p.Token = s.Env.HypTokens[denom].Bytes()
			p.GasLimit, p.MaxFeeDenom, p.MaxFeeAmt = "0", denom, "0"
			if r.Intn(4) == 0 {
				// the hooks of this mailbox charge nothing, so any cap on the fee is immaterial
				p.GasLimit = []string{"0", "1", "200000"}[r.Intn(3)]
				p.MaxFeeDenom, p.MaxFeeAmt = []string{DenomStake, DenomOther, denom}[r.Intn(3)], []string{"1", "5", "1000000"}[r.Intn(3)]
			}
		}
	default:
		p.Proto = "PROTOCOL_INTERNAL"
		switch r.Intn(8) {
		case 0:
			p.Recipient = s.Env.Noble[r.Intn(NumNoble)].Addr.String()
		case 1:
			p.Recipient = s.Env.FeeRcpt[r.Intn(NumFeeRcpt)].Addr.String()
		default:
			p.Recipient = s.Env.Rcpt[r.Intn(NumRecipient)].Addr.String()
		}
		p.Passthrough, p.PTNull = []byte{}, false
	}
}

// viaConstructors builds the memo through the module's public constructors; ok=false
// when the constructors refuse the payload.
func viaConstructors(s *Sim, p *MPayload) (string, bool) {
	var fwd *core.Forwarding
	var err error
	pt := p.Passthrough
	if p.PTNull {
		pt = nil
	}
	switch p.Proto {
	case "PROTOCOL_CCTP":
		fwd, err = forwardingtypes.NewCCTPForwarding(p.Domain, p.MintRecipient, p.DestCaller, pt)
	case "PROTOCOL_HYPERLANE":
		gl, _ := sdkmath.NewIntFromString(p.GasLimit)
		mf, _ := sdkmath.NewIntFromString(p.MaxFeeAmt)
		fwd, err = forwardingtypes.NewHyperlaneForwarding(p.Token, p.Domain, p.Recipient32, p.HookID, p.HookMeta, gl, sdk.Coin{Denom: p.MaxFeeDenom, Amount: mf}, pt)
	case "PROTOCOL_INTERNAL":
		fwd, err = forwardingtypes.NewInternalForwarding(p.Recipient)
		if err == nil && len(pt) > 0 {
			fwd.PassthroughPayload = pt
		}
	default:
		return "", false
	}
	if err != nil {
		return "", false
	}
	var acts []*core.Action
	if p.HasFee {
		var infos []*actiontypes.FeeInfo
		for _, f := range p.Fees {
			if f.IsBPS {
				b, err := actiontypes.NewFeeBasisPoints(uint32(f.BPS))
				if err != nil {
					return "", false
				}
				infos = append(infos, &actiontypes.FeeInfo{Recipient: f.Recipient, FeeType: b})
			} else {
				a, err := actiontypes.NewFeeAmount(f.Amount.String())
				if err != nil {
					return "", false
				}
				infos = append(infos, &actiontypes.FeeInfo{Recipient: f.Recipient, FeeType: a})
			}
		}
		fa, err := actiontypes.NewFeeAction(infos...)
		if err != nil {
			return "", false
		}
		acts = append(acts, fa)
	}
	pw, err := core.NewPayloadWrapper(fwd, acts...)
	if err != nil {
		return "", false
	}
	bz, err := orbitertypes.MarshalJSON(s.N.Cdc, pw)
	if err != nil {
		return "", false
	}
	return string(bz), true
}

// passthrough draws a passthrough payload relative to the limit the model believes in force.
func (g *genState) passthrough(s *Sim, p *MPayload) {
	r := g.r
	lim := int(s.Model.Limit)
	if lim > 23000 {
		lim = 23000 // about the most a memo of legal length (32768 characters, base64) can carry
	}
	if r.Bool(g.prof.BigPassP) {
		// large payloads whatever the limit in force: the twin worlds set the limit to exactly their length
		p.Passthrough, p.PTNull = r.Bytes(15000+r.Intn(8000)), false
		return
	}
	var n int
	switch r.Pick(g.prof.PassW) {
	case 0:
		return
	case 1:
		if lim == 0 {
			return
		}
		n = 1 + r.Intn(lim)
	case 2:
		n = lim + []int{-1, 0, 0, 1}[r.Intn(4)]
	case 3:
		n = lim + 1 + r.Intn(40)
	}
	if n <= 0 {
		return
	}
	p.Passthrough = r.Bytes(n)
	p.PTNull = false
}

// ---------- must-refuse edits ----------

type refuseEdit struct {
	Tag  string // "<property>:<reason>"
	Make func(g *genState, s *Sim, p *MPayload, A *big.Int) (memo string, ok bool)
}

func withFees(p *MPayload, fees []MFee) string {
	q := *p
	q.HasFee, q.Fees = true, fees
	q.Swap = nil // the edit's meaning is stated on the incoming amount
	return q.Canonical()
}

func replaceOnce(s, old, new string) (string, bool) {
	if !strings.Contains(s, old) {
		return s, false
	}
	return strings.Replace(s, old, new, 1), true
}

var refuseEdits = []refuseEdit{
	{"C04:six-entries", func(g *genState, s *Sim, p *MPayload, A *big.Int) (string, bool) {
		var fs []MFee
		for i := 0; i < 6; i++ {
			fs = append(fs, MFee{Recipient: s.Env.FeeRcpt[i%NumFeeRcpt].Addr.String(), IsBPS: true, BPS: 1})
		}
		return withFees(p, fs), A.Cmp(big.NewInt(100)) > 0
	}},
	{"C04:bps-zero", func(g *genState, s *Sim, p *MPayload, A *big.Int) (string, bool) {
		return withFees(p, []MFee{{Recipient: s.Env.FeeRcpt[0].Addr.String(), IsBPS: true, BPS: 0}}), true
	}},
	{"C04:bps-over-10000", func(g *genState, s *Sim, p *MPayload, A *big.Int) (string, bool) {
		return withFees(p, []MFee{{Recipient: s.Env.FeeRcpt[0].Addr.String(), IsBPS: true, BPS: uint64(10001 + g.r.Intn(3))}}), true
	}},
	{"C04:bps-u32-max", func(g *genState, s *Sim, p *MPayload, A *big.Int) (string, bool) {
		return withFees(p, []MFee{{Recipient: s.Env.FeeRcpt[0].Addr.String(), IsBPS: true, BPS: 4294967295}}), true
	}},
	{"C04:fixed-zero", func(g *genState, s *Sim, p *MPayload, A *big.Int) (string, bool) {
		return withFees(p, []MFee{{Recipient: s.Env.FeeRcpt[0].Addr.String(), Amount: big.NewInt(0)}}), true
	}},
	{"C04:fixed-negative", func(g *genState, s *Sim, p *MPayload, A *big.Int) (string, bool) {
		return withFees(p, []MFee{{Recipient: s.Env.FeeRcpt[0].Addr.String(), Amount: big.NewInt(-5)}}), true
	}},
	{"C04:fixed-not-a-number", func(g *genState, s *Sim, p *MPayload, A *big.Int) (string, bool) {
		m := withFees(p, []MFee{{Recipient: s.Env.FeeRcpt[0].Addr.String(), Amount: big.NewInt(777)}})
		return replaceOnce(m, `"value":"777"`, `"value":"`+pickStr(g.r, []string{"abc", "", "1.5", "1e3", "NaN"})+`"`)
	}},
	{"C04:bad-recipient", func(g *genState, s *Sim, p *MPayload, A *big.Int) (string, bool) {
		bad := pickStr(g.r, []string{"", "noble1xyz", "cosmos1qypqxpq9qcrsszg2pvxq6rs0zqg3yyc5lzv7xu", "not-an-address"})
		return withFees(p, []MFee{{Recipient: bad, IsBPS: true, BPS: 10}}), true
	}},
	{"C04:fees-equal-amount", func(g *genState, s *Sim, p *MPayload, A *big.Int) (string, bool) {
		return withFees(p, []MFee{{Recipient: s.Env.FeeRcpt[0].Addr.String(), Amount: new(big.Int).Set(A)}}), true
	}},
	{"C04:fees-equal-amount-split", func(g *genState, s *Sim, p *MPayload, A *big.Int) (string, bool) {
		if A.Cmp(big.NewInt(3)) < 0 {
			return "", false
		}
		h := new(big.Int).Quo(A, big.NewInt(2))
		return withFees(p, []MFee{{Recipient: s.Env.FeeRcpt[0].Addr.String(), Amount: h}, {Recipient: s.Env.FeeRcpt[1].Addr.String(), Amount: new(big.Int).Sub(A, h)}}), true
	}},
	{"C04:fees-exceed-amount", func(g *genState, s *Sim, p *MPayload, A *big.Int) (string, bool) {
		return withFees(p, []MFee{{Recipient: s.Env.FeeRcpt[0].Addr.String(), Amount: new(big.Int).Add(A, big.NewInt(1))}}), true
	}},
	{"C04:full-bps", func(g *genState, s *Sim, p *MPayload, A *big.Int) (string, bool) {
		return withFees(p, []MFee{{Recipient: s.Env.FeeRcpt[0].Addr.String(), IsBPS: true, BPS: 10000}}), true
	}},
	{"C04:sum-overflow", func(g *genState, s *Sim, p *MPayload, A *big.Int) (string, bool) {
		h := new(big.Int).Lsh(big.NewInt(1), 255)
		return withFees(p, []MFee{{Recipient: s.Env.FeeRcpt[0].Addr.String(), Amount: h}, {Recipient: s.Env.FeeRcpt[1].Addr.String(), Amount: h}}), true
	}},
	{"C05:protocol-ibc", func(g *genState, s *Sim, p *MPayload, A *big.Int) (string, bool) {
		return replaceOnce(p.Canonical(), `"protocol_id":"`+p.Proto+`"`, `"protocol_id":"PROTOCOL_IBC"`)
	}},
	{"C05:protocol-unsupported", func(g *genState, s *Sim, p *MPayload, A *big.Int) (string, bool) {
		return replaceOnce(p.Canonical(), `"protocol_id":"`+p.Proto+`"`, `"protocol_id":"PROTOCOL_UNSUPPORTED"`)
	}},
	{"C05:protocol-unknown-number", func(g *genState, s *Sim, p *MPayload, A *big.Int) (string, bool) {
		return replaceOnce(p.Canonical(), `"protocol_id":"`+p.Proto+`"`, `"protocol_id":`+pickStr(g.r, []string{"5", "99", "-1", "2147483647"}))
	}},
	{"C05:attributes-of-other-protocol", func(g *genState, s *Sim, p *MPayload, A *big.Int) (string, bool) {
		others := []string{"PROTOCOL_CCTP", "PROTOCOL_HYPERLANE", "PROTOCOL_INTERNAL"}
		o := others[g.r.Intn(3)]
		if o == p.Proto {
			return "", false
		}
		return replaceOnce(p.Canonical(), `"protocol_id":"`+p.Proto+`"`, `"protocol_id":"`+o+`"`)
	}},
	{"C05:action-swap", func(g *genState, s *Sim, p *MPayload, A *big.Int) (string, bool) {
		m := withFees(p, []MFee{{Recipient: s.Env.FeeRcpt[0].Addr.String(), IsBPS: true, BPS: 10}})
		return replaceOnce(m, `"id":"ACTION_FEE"`, `"id":"ACTION_SWAP"`)
	}},
	{"C05:action-unknown-number", func(g *genState, s *Sim, p *MPayload, A *big.Int) (string, bool) {
		m := withFees(p, []MFee{{Recipient: s.Env.FeeRcpt[0].Addr.String(), IsBPS: true, BPS: 10}})
		return replaceOnce(m, `"id":"ACTION_FEE"`, `"id":`+pickStr(g.r, []string{"3", "77", "-2"}))
	}},
	{"C05:action-unsupported", func(g *genState, s *Sim, p *MPayload, A *big.Int) (string, bool) {
		m := withFees(p, []MFee{{Recipient: s.Env.FeeRcpt[0].Addr.String(), IsBPS: true, BPS: 10}})
		return replaceOnce(m, `"id":"ACTION_FEE"`, `"id":"ACTION_UNSUPPORTED"`)
	}},
	{"C06:duplicate-action", func(g *genState, s *Sim, p *MPayload, A *big.Int) (string, bool) {
		m := withFees(p, []MFee{{Recipient: s.Env.FeeRcpt[0].Addr.String(), IsBPS: true, BPS: 10}})
		i := strings.Index(m, `"pre_actions":[`)
		j := strings.Index(m, `],"forwarding"`)
		if i < 0 || j < 0 {
			return "", false
		}
		act := m[i+len(`"pre_actions":[`) : j]
		return m[:j] + "," + act + m[j:], true
	}},
	{"C16:hyperlane-token-of-another-denomination", func(g *genState, s *Sim, p *MPayload, A *big.Int) (string, bool) {
		// a real, routed Hyperlane token whose collateral is not the coin that arrived
		if p.Proto != "PROTOCOL_HYPERLANE" || p.Swap != nil {
			return "", false
		}
		var others [][]byte
		var denoms []string
		for i, t := range [][]byte{s.Env.HypTokens[DenomUSDC].Bytes(), s.Env.HypTokens[DenomHuge].Bytes(), s.Env.HypIGPToken.Bytes()} {
			if !bytesEq(t, p.Token) {
				others = append(others, t)
				denoms = append(denoms, []string{DenomUSDC, DenomHuge, DenomOther}[i])
			}
		}
		q := *p
		k := g.r.Intn(len(others))
		// prefer a token whose collateral denomination is lying on the orbiter account right now
		for i, d := range denoms {
			if s.Ledger.Get(s.Env.Orbiter.String(), d).IsPositive() && g.r.Intn(4) > 0 {
				k = i
			}
		}
		q.Token, g.otherTokenDenom = others[k], denoms[k]
		if bytesEq(p.Token, s.Env.HypIGPToken.Bytes()) {
			q.GasLimit, q.MaxFeeDenom, q.MaxFeeAmt = "0", DenomUSDC, "0"
		}
		return q.Canonical(), true
	}},
	{"C14:extra-root-key", func(g *genState, s *Sim, p *MPayload, A *big.Int) (string, bool) {
		m := p.Canonical()
		return m[:len(m)-1] + `,"other":{}}`, true
	}},
	{"C14:unknown-field", func(g *genState, s *Sim, p *MPayload, A *big.Int) (string, bool) {
		return replaceOnce(p.Canonical(), `"forwarding":{`, `"forwarding":{"bogus":1,`)
	}},
	{"C14:unregistered-type", func(g *genState, s *Sim, p *MPayload, A *big.Int) (string, bool) {
		return replaceOnce(p.Canonical(), `"@type":"/noble.orbiter.controller.forwarding.v1.`, `"@type":"/noble.orbiter.controller.forwarding.v9.`)
	}},
	{"C14:type-of-other-interface", func(g *genState, s *Sim, p *MPayload, A *big.Int) (string, bool) {
		if p.Proto != "PROTOCOL_INTERNAL" {
			return "", false
		}
		return replaceOnce(p.Canonical(), `"attributes":{"@type":"`+typeInt+`","recipient":`+fmt.Sprintf("%q", p.Recipient)+`}`, `"attributes":{"@type":"`+typeFee+`","fees_info":[]}`)
	}},
	{"C14:missing-forwarding", func(g *genState, s *Sim, p *MPayload, A *big.Int) (string, bool) {
		return `{"orbiter":{}}`, true
	}},
	{"C14:null-forwarding", func(g *genState, s *Sim, p *MPayload, A *big.Int) (string, bool) {
		return `{"orbiter":{"forwarding":null}}`, true
	}},
	{"C14:missing-attributes", func(g *genState, s *Sim, p *MPayload, A *big.Int) (string, bool) {
		return `{"orbiter":{"forwarding":{"protocol_id":"` + p.Proto + `"}}}`, true
	}},
	{"C14:empty-memo", func(g *genState, s *Sim, p *MPayload, A *big.Int) (string, bool) {
		// ibc-go leaves the memo key out of the packet data altogether when the memo is empty
		return "", true
	}},
	{"C14:not-json", func(g *genState, s *Sim, p *MPayload, A *big.Int) (string, bool) {
		return pickStr(g.r, []string{"orbiter", "{", `{"orbiter":`, "[]", "null", "\x00\x01", ""}), true
	}},
	{"C14:orbiter-not-object", func(g *genState, s *Sim, p *MPayload, A *big.Int) (string, bool) {
		return `{"orbiter":` + pickStr(g.r, []string{"null", "1", `"x"`, "[]", "true"}) + `}`, true
	}},
}

func (g *genState) pickRefuse(s *Sim, p *MPayload, A *big.Int) (tag, memo string, ok bool) {
	var cands []refuseEdit
	for _, e := range refuseEdits {
		if len(g.prof.RefuseKinds) == 0 {
			cands = append(cands, e)
			continue
		}
		for _, k := range g.prof.RefuseKinds {
			if strings.HasPrefix(e.Tag, k) {
				cands = append(cands, e)
			}
		}
	}
	if len(cands) == 0 {
		return "", "", false
	}
	for try := 0; try < 4; try++ {
		e := cands[g.r.Intn(len(cands))]
		if m, ok := e.Make(g, s, p, A); ok {
			return e.Tag, m, true
		}
	}
	return "", "", false
}

// ---------- unconstrained mutations ----------

// mutateJSON applies one structural mutation at a random node of a JSON document.
func (g *genState) mutateJSON(doc string) string {
	var root any
	dec := json.NewDecoder(strings.NewReader(doc))
	dec.UseNumber()
	if dec.Decode(&root) != nil {
		return doc
	}
	type site struct {
		parent any
		key    string
		idx    int
	}
	var sites []site
	var walk func(v any)
	walk = func(v any) {
		switch t := v.(type) {
		case map[string]any:
			ks := make([]string, 0, len(t))
			for k := range t {
				ks = append(ks, k)
			}
			sort.Strings(ks)
			for _, k := range ks {
				sites = append(sites, site{parent: t, key: k})
				walk(t[k])
			}
		case []any:
			for i := range t {
				sites = append(sites, site{parent: t, idx: i})
				walk(t[i])
			}
		}
	}
	walk(root)
	if len(sites) == 0 {
		return doc
	}
	st := sites[g.r.Intn(len(sites))]
	repl := []any{nil, []any{nil}, map[string]any{}, []any{}, "x", json.Number("7"), true, json.Number("-1"), "", json.Number("115792089237316195423570985008687907853269984665640564039457584007913129639936"), []any{nil, nil}, map[string]any{"@type": "/x"}}
	v := repl[g.r.Intn(len(repl))]
	del := g.r.Intn(5) == 0
	switch p := st.parent.(type) {
	case map[string]any:
		if del {
			delete(p, st.key)
		} else {
			p[st.key] = v
		}
	case []any:
		p[st.idx] = v
	}
	out, err := json.Marshal(root)
	if err != nil {
		return doc
	}
	return string(out)
}

// multiErr: payloads that are wrong in several places at once, so that any error text
// assembled from an unordered collection has several candidates to choose from.
func (g *genState) multiErr(p *MPayload) string {
	r := g.r
	m := p.Canonical()
	extra := func(n int) string {
		names := []string{"aaa", "bbb", "ccc", "zzz", "memo", "forward", "wasm", "x1", "x2"}
		var parts []string
		for i := 0; i < n; i++ {
			parts = append(parts, fmt.Sprintf(`"%s":%d`, names[(r.Intn(len(names))+i)%len(names)]+fmt.Sprint(i), i))
		}
		return strings.Join(parts, ",")
	}
	switch r.Intn(6) {
	case 0: // several unknown fields next to the forwarding fields
		m, _ = replaceOnce(m, `"forwarding":{`, `"forwarding":{`+extra(2+r.Intn(3))+`,`)
	case 1: // several unknown fields inside the attributes
		m, _ = replaceOnce(m, `"attributes":{"@type"`, `"attributes":{`+extra(2+r.Intn(3))+`,"@type"`)
	case 2: // several unknown keys inside the orbiter object
		m, _ = replaceOnce(m, `{"orbiter":{`, `{"orbiter":{`+extra(2+r.Intn(3))+`,`)
	case 3: // several foreign root keys
		m = m[:len(m)-1] + "," + extra(2+r.Intn(3)) + "}"
	case 4: // several invalid attributes at once + unknown fields in a fee entry
		m = withFees(p, []MFee{{Recipient: "bad1", IsBPS: true, BPS: 0}, {Recipient: "bad2", Amount: big.NewInt(0)}})
		m, _ = replaceOnce(m, `{"recipient":"bad1"`, `{`+extra(3)+`,"recipient":"bad1"`)
	default:
		m, _ = replaceOnce(m, `"forwarding":{`, `"forwarding":{`+extra(2)+`,`)
		m, _ = replaceOnce(m, `{"orbiter":{`, `{"orbiter":{`+extra(2)+`,`)
	}
	return m
}

func (g *genState) exotic(p *MPayload, memo string) string {
	r := g.r
	switch r.Intn(11) {
	case 8:
		// Hyperlane: optional-looking fields absent or null
		m := memo
		for _, k := range []string{`"gas_limit":"0",`, `,"max_fee":{"denom":"` + p.MaxFeeDenom + `","amount":"0"}`, `"custom_hook_metadata":"",`} {
			if r.Intn(2) == 0 {
				m = strings.Replace(m, k, "", 1)
			}
		}
		return m
	case 9:
		// byte fields of the wrong length
		short := base64.StdEncoding.EncodeToString(r.Bytes(1 + r.Intn(40)))
		for _, k := range []string{`"recipient":"`, `"token_id":"`, `"mint_recipient":"`, `"destination_caller":"`, `"custom_hook_id":"`} {
			if i := strings.Index(memo, k); i >= 0 && r.Intn(2) == 0 {
				j := strings.Index(memo[i+len(k):], `"`)
				return memo[:i+len(k)] + short + memo[i+len(k)+j:]
			}
		}
		return strings.Replace(memo, `"custom_hook_id":null`, `"custom_hook_id":"`+short+`"`, 1)
	case 10:
		m := strings.Replace(memo, `"gas_limit":"0"`, `"gas_limit":`+pickStr(r, []string{"null", `""`, `"-1"`, `"x"`}), 1)
		return strings.Replace(m, `"amount":"0"}`, `"amount":`+pickStr(r, []string{"null", `""`, `"-1"`})+`}`, 1)
	case 0:
		m, _ := replaceOnce(memo, `"protocol_id":"`+p.Proto+`"`, fmt.Sprintf(`"protocol_id":%d`, protoNum(p.Proto)))
		return m
	case 1:
		m, _ := replaceOnce(memo, `"id":"ACTION_FEE"`, `"id":1`)
		return m
	case 2:
		m, _ := replaceOnce(memo, `"destination_domain":`, `"destination_domain":"`)
		if m != memo {
			i := strings.Index(m, `"destination_domain":"`) + len(`"destination_domain":"`)
			j := i
			for j < len(m) && m[j] >= '0' && m[j] <= '9' {
				j++
			}
			m = m[:j] + `"` + m[j:]
		}
		return m
	case 3:
		m, _ := replaceOnce(memo, `"amount":{"value":"`, `"amount":{"value":"`+pickStr(r, []string{"0x", "+", "0b1", "0o7", "00", " "}))
		return m
	case 4:
		m, _ := replaceOnce(memo, `"basis_points":{"value":`, `"basis_points":{"value":"`)
		if m != memo {
			i := strings.Index(m, `"basis_points":{"value":"`) + len(`"basis_points":{"value":"`)
			j := i
			for j < len(m) && m[j] >= '0' && m[j] <= '9' {
				j++
			}
			m = m[:j] + `"` + m[j:]
		}
		return m
	case 5:
		return strings.Replace(memo, `{"orbiter":`, `{ "orbiter" : `, 1)
	case 6:
		return strings.Replace(memo, `"passthrough_payload":null`, `"passthrough_payload":""`, 1)
	default:
		// duplicated key
		m, _ := replaceOnce(memo, `"forwarding":{`, `"forwarding":{"protocol_id":"PROTOCOL_INTERNAL",`)
		return m
	}
}

// ---------- op generation ----------

func (g *genState) genSend(s *Sim) Op {
	r := g.r
	op := Op{ID: g.id(), K: "send"}
	op.Pair = r.Intn(NumPairs)
	op.User = r.Intn(NumRemote)
	denoms := []string{DenomUSDC, DenomUSDC, DenomUSDC, DenomOther}
	op.Denom = denoms[r.Intn(len(denoms))]
	if g.scaleW[3] > 0 && r.Intn(4) == 0 {
		op.Pair, op.User, op.Denom = 0, 0, DenomHuge
	}
	if r.Bool(g.prof.TimeoutP) {
		op.TO = 1 + r.Intn(6)
		if r.Intn(3) == 0 {
			op.TO, op.TOS = 0, []int{8, 30, 600, 7200}[r.Intn(4)] // by timestamp: clock jumps pass it
		}
	}
	p := &MPayload{}
	g.genRoute(s, p, op.Denom)
	var bpsHint []uint64
	A := g.genAmount(op.Denom, bpsHint)
	// cap by the sender's voucher balance
	bal := s.Ledger.Get(s.Env.Remote[op.Pair][op.User].Addr.String(), voucherOnB(op.Pair, op.Denom)).BigInt()
	if bal.Sign() == 0 {
		op.Denom = DenomOther
		bal = s.Ledger.Get(s.Env.Remote[op.Pair][op.User].Addr.String(), voucherOnB(op.Pair, op.Denom)).BigInt()
		g.genRoute(s, p, op.Denom)
	}
	if A.Cmp(bal) > 0 {
		A = new(big.Int).Set(bal)
	}
	if A.Sign() <= 0 {
		A = big.NewInt(1)
	}
	op.Amt = A.String()
	feeBase := A
	if s.ModeB != nil && (op.Denom == DenomUSDC || op.Denom == DenomOther) && r.Intn(3) == 0 {
		// the denomination-changing test action, before or after the fee action
		rates := [][2]int64{{3, 2}, {2, 3}, {1, 7}, {7, 1}, {999, 1000}, {1, 1}, {10001, 10000}}
		rt := rates[r.Intn(len(rates))]
		other := map[string]string{DenomUSDC: DenomOther, DenomOther: DenomUSDC}[op.Denom]
		p.Swap = &MSwap{Denom: other, Num: rt[0], Den: rt[1]}
		p.SwapFirst = r.Intn(2) == 0
		q := &MPayload{}
		g.genRoute(s, q, other)
		q.Swap, q.SwapFirst = p.Swap, p.SwapFirst
		*p = *q
		if p.SwapFirst {
			feeBase = new(big.Int).Quo(new(big.Int).Mul(A, big.NewInt(rt[0])), big.NewInt(rt[1]))
			if feeBase.Sign() <= 0 {
				feeBase = big.NewInt(1)
			}
		}
	}
	p.HasFee, p.Fees = g.genFees(s, feeBase)
	if p.Swap != nil && !p.HasFee {
		p.SwapFirst = true
	}
	g.passthrough(s, p)
	op.Recv = s.Env.Orbiter.String()
	class := []string{"canon", "refuse", "free", "plain", "nearmiss", "exotic", "multierr"}
	var cw []int
	for _, c := range class {
		cw = append(cw, g.classW[c])
	}
	c := class[r.Pick(cw)]
	switch c {
	case "canon":
		op.Class = "canon"
		op.Memo = p.Canonical()
		if via, ok := viaConstructors(s, p); ok && p.Swap == nil && via != op.Memo {
			panic(harnessErr("model serialisation differs from the module's constructors+MarshalJSON:\n model: %s\n module: %s", op.Memo, via))
		}
		if len(g.memoPool) > 0 && r.Bool(0.15) {
			// a memo seen before in this run, byte for byte, with another amount (front ends reuse route templates)
			e := g.memoPool[r.Intn(len(g.memoPool))]
			if e.denom != DenomHuge {
				u := s.Env.Remote[op.Pair][op.User]
				if op.Denom == DenomHuge {
					op.Pair, op.User = r.Intn(NumPairs), r.Intn(NumRemote)
					u = s.Env.Remote[op.Pair][op.User]
				}
				nb := s.Ledger.Get(u.Addr.String(), voucherOnB(op.Pair, e.denom)).BigInt()
				na := g.genAmount(e.denom, nil)
				if na.Cmp(nb) > 0 {
					na = nb
				}
				if na.Sign() > 0 {
					op.Denom, op.Memo, op.Amt = e.denom, e.memo, na.String()
					s.Stats.Probe("memo_reused_with_another_amount")
				}
			}
		} else if len(g.memoPool) < 12 {
			g.memoPool = append(g.memoPool, memoEntry{op.Memo, op.Denom})
		}
		if r.Intn(12) == 0 {
			op.Recv = strings.ToUpper(op.Recv)
			op.Class = "canon-upper"
		}
	case "refuse":
		tag, memo, ok := g.pickRefuse(s, p, A)
		if !ok {
			op.Class, op.Memo = "canon", p.Canonical()
		} else {
			op.Class, op.Memo = "refuse:"+tag, memo
			if tag == "C16:hyperlane-token-of-another-denomination" {
				// an amount the coins lying on the orbiter account in the token's own denomination could cover
				if d := s.Ledger.Get(s.Env.Orbiter.String(), g.otherTokenDenom).BigInt(); d.Sign() > 0 && d.Cmp(A) < 0 && !p.HasFee {
					op.Amt = d.String()
					if d.Cmp(big.NewInt(4)) > 0 && r.Intn(2) == 0 {
						op.Amt = new(big.Int).Sub(d, big.NewInt(int64(r.Intn(3)))).String()
					}
					s.Stats.Probe("foreign_token_with_amount_covered_by_dust")
				}
			}
		}
	case "free":
		op.Class = "free"
		op.Memo = g.mutateJSON(p.Canonical())
		if r.Intn(3) == 0 {
			op.Memo = g.mutateJSON(op.Memo)
		}
	case "multierr":
		op.Class = "free:multierr"
		op.Memo = g.multiErr(p)
	case "exotic":
		op.Class = "free:exotic"
		op.Memo = g.exotic(p, p.Canonical())
	case "plain":
		op.Class = "plain"
		rc := []string{s.Env.Rcpt[r.Intn(NumRecipient)].Addr.String(), s.Env.Noble[r.Intn(NumNoble)].Addr.String(), s.Env.Dust.String(), s.Env.FeeRcpt[0].Addr.String()}
		op.Recv = rc[r.Intn(len(rc))]
		switch r.Intn(4) {
		case 0:
			op.Memo = ""
		case 1:
			op.Memo = p.Canonical() // a complete orbiter payload, but not for the orbiter
		case 2:
			op.Memo = `{"forward":{"receiver":"x","port":"transfer","channel":"channel-0"}}`
		default:
			op.Memo = string(r.Bytes(r.Intn(40)))
			op.Memo = strings.ToValidUTF8(op.Memo, "?")
		}
	case "nearmiss":
		op.Class = "nearmiss"
		orb := s.Env.Orbiter.String()
		cos, _ := sdk.Bech32ifyAddressBytes("cosmos", s.Env.Orbiter)
		mixed := strings.ToUpper(orb[:10]) + orb[10:]
		rc := []string{" " + orb, orb + " ", mixed, cos, orb[:len(orb)-1], orb + "q", strings.ToUpper(orb[:5]) + orb[5:], "NOBLE" + orb[5:]}
		op.Recv = rc[r.Intn(len(rc))]
		op.Memo = p.Canonical()
	}
	return op
}

// genSendOddDenom: orbiter transfers whose token is not a Noble-native denomination returning over
// the channel it left on (C16): native to the sender, prefixed by another channel, two hops.
func (g *genState) genSendOddDenom(s *Sim) Op {
	r := g.r
	op := Op{ID: g.id(), K: "send", RawDn: true, Recv: s.Env.Orbiter.String(), Class: "canon"}
	p := &MPayload{Proto: "PROTOCOL_INTERNAL", Recipient: s.Env.Rcpt[r.Intn(NumRecipient)].Addr.String(), Passthrough: []byte{}}
	op.Memo = p.Canonical()
	switch r.Intn(3) {
	case 0:
		op.Pair, op.User, op.Denom = r.Intn(NumPairs), r.Intn(NumRemote), DenomStake
	case 1:
		op.Pair, op.User, op.Denom = 1, 0, voucherOnB(0, DenomUSDC)
	default:
		op.Pair, op.User, op.Denom = 1, 1, twoHopOnB1()
	}
	op.Amt = fmt.Sprint(1 + r.Intn(100000))
	return op
}

func (g *genState) genSendOut(s *Sim) Op {
	r := g.r
	op := Op{ID: g.id(), K: "sendout", Class: "plain"}
	op.Pair = r.Intn(NumPairs)
	op.User = r.Intn(NumNoble)
	op.Denom = []string{DenomUSDC, DenomOther, DenomStake}[r.Intn(3)]
	u := s.Env.Noble[op.User]
	if s.Ledger.Get(u.Addr.String(), DenomHuge).IsPositive() && r.Intn(2) == 0 {
		op.Denom = DenomHuge
	}
	bal := s.Ledger.Get(u.Addr.String(), op.Denom).BigInt()
	A := g.genAmount(op.Denom, nil)
	if A.Cmp(bal) > 0 {
		A = bal
	}
	if A.Sign() <= 0 {
		A = big.NewInt(1)
	}
	op.Amt = A.String()
	if op.Denom == DenomHuge {
		op.Pair = 0
		op.Recv = s.Env.Remote[0][0].Addr.String()
	} else {
		op.Recv = s.Env.Remote[op.Pair][r.Intn(NumRemote)].Addr.String()
		if r.Intn(10) == 0 {
			op.Recv = s.Env.Orbiter.String() // orbiter address as receiver on the far end (token native to sender)
			op.Memo = `{"orbiter":{"pre_actions":[],"forwarding":{"protocol_id":"PROTOCOL_INTERNAL","attributes":{"@type":"` + typeInt + `","recipient":"` + s.Env.Rcpt[0].Addr.String() + `"},"passthrough_payload":""}}}`
			op.Class = "canon"
		}
	}
	if r.Bool(g.prof.TimeoutP) {
		op.TO = 1 + r.Intn(6)
	}
	return op
}

func (g *genState) genByz(s *Sim) Op {
	r := g.r
	op := Op{ID: g.id(), K: "byz", Pair: r.Intn(NumPairs), Class: "free:byz"}
	orb := s.Env.Orbiter.String()
	p := &MPayload{}
	g.genRoute(s, p, DenomUSDC)
	memo := p.Canonical()
	prefix := "transfer/" + chanB(op.Pair) + "/"
	var data []byte
	switch r.Intn(7) {
	case 0:
		data = r.Bytes(1 + r.Intn(200))
	case 1:
		data = []byte(pickStr(r, []string{" ", "{}", "null", "[]", `{"denom":1}`, `{"amount":null}`}))
	default:
		denoms := []string{prefix + DenomUSDC, prefix + "transfer/channel-9/" + DenomUSDC, DenomUSDC, prefix, prefix + "/", prefix + "a/b", "transfer/channel-77/" + DenomUSDC, prefix + DenomUSDC + "/", prefix + "ibc/ABCDEF", strings.ToUpper(prefix + DenomUSDC), prefix + "a", prefix + "1abc", prefix + "ab", prefix + DenomOther}
		amts := []string{"1000", "0", "-1", "0x10", "1_000", "+5", " 7", "1e3", "", "115792089237316195423570985008687907853269984665640564039457584007913129639936", "115792089237316195423570985008687907853269984665640564039457584007913129639935", "1.0"}
		d := map[string]any{"denom": denoms[r.Intn(len(denoms))], "amount": amts[r.Intn(len(amts))], "sender": s.Env.Remote[op.Pair][0].Addr.String(), "receiver": orb, "memo": memo}
		if r.Intn(4) == 0 {
			// spellings that ibc-go's integer parser reads in another base or with separators: the coin ICS-20 credits
			// is what counts, whatever the digits look like
			d["denom"] = prefix + DenomUSDC
			d["amount"] = pickStr(r, []string{"0777", "0000100", "010", "0x10", "0X1f", "0b1010", "0o17", "1_000", "+5", "00", "09", "0x", "1__0"})
		}
		if r.Intn(4) == 0 {
			d["memo"] = g.mutateJSON(memo)
		}
		if r.Intn(8) == 0 {
			d["sender"] = pickStr(r, []string{"", "x", strings.Repeat("a", 3000)})
		}
		if r.Intn(8) == 0 {
			d["extra"] = 1
		}
		if r.Bool(g.prof.ByzPlainP) {
			// not for the orbiter: whatever the wrapped application does with it, the middleware adds nothing
			d["receiver"] = pickStr(r, []string{s.Env.Rcpt[0].Addr.String(), s.Env.Noble[1].Addr.String(), s.Env.Dust.String(), "", "x"})
		}
		escaped := ""
		if r.Intn(6) == 0 {
			// the same receiver string written with JSON escapes: identical after decoding, different as raw bytes
			k := r.Intn(len(orb))
			escaped = orb[:k] + fmt.Sprintf("\\u%04x", orb[k]) + orb[k+1:]
			d["denom"], d["amount"] = prefix+DenomUSDC, fmt.Sprint(1000+r.Intn(100000))
		}
		if r.Intn(10) == 0 {
			// a memo beyond what ibc-go's MsgTransfer would let a user send (only the sending chain bounds it)
			q := *p
			q.Passthrough, q.PTNull = r.Bytes(24000+r.Intn(40000)), false
			d["memo"], d["denom"], d["amount"] = q.Canonical(), prefix+DenomUSDC, "1000"
		}
		if r.Intn(4) == 0 {
			// keys left out or null: whatever a decoder does with an absent field, it is not the previous packet's value
			ks := []string{"receiver", "memo", "sender", "denom", "amount"}
			for n := 1 + r.Intn(2); n > 0; n-- {
				k := ks[r.Intn(len(ks))]
				if r.Intn(3) == 0 {
					d[k] = nil
				} else {
					delete(d, k)
				}
			}
			if r.Intn(2) == 0 {
				d["denom"], d["amount"] = prefix+DenomUSDC, fmt.Sprint(1000+r.Intn(100000))
				delete(d, "memo")
			}
		}
		data, _ = json.Marshal(d)
		if escaped != "" {
			data = []byte(strings.Replace(string(data), `"receiver":"`+orb+`"`, `"receiver":"`+escaped+`"`, 1))
		}
	}
	op.Raw = base64.StdEncoding.EncodeToString(data)
	return op
}

func (g *genState) inflight(s *Sim, pred func(p *Pkt) bool) []*Pkt {
	var out []*Pkt
	for _, p := range s.sortedPackets() {
		if pred(p) {
			out = append(out, p)
		}
	}
	return out
}

func (g *genState) genDeliver(s *Sim) (Op, bool) {
	r := g.r
	pending := map[int]bool{}
	for _, t := range s.Mempool {
		if m, ok := t.Meta.(*txMeta); ok && m.Kind == "recv" {
			for _, p := range m.Pkts {
				pending[p.Origin] = true
			}
		}
	}
	c := g.inflight(s, func(p *Pkt) bool { return p.State == PktInFlight && !pending[p.Origin] })
	op := Op{ID: g.id(), K: "deliver", Rel: r.Intn(NumRelayers)}
	if r.Bool(g.prof.DupP) {
		d := g.inflight(s, func(p *Pkt) bool { return p.State != PktInFlight || pending[p.Origin] })
		if len(d) > 0 {
			op.Ref = d[r.Intn(len(d))].Origin
			return op, true
		}
	}
	if len(c) == 0 {
		return op, false
	}
	if len(c) >= 2 && r.Bool(g.prof.BatchP) {
		n := 2 + r.Intn(3)
		if n > len(c) {
			n = len(c)
		}
		perm := r.Intn(len(c))
		for i := 0; i < n; i++ {
			op.Refs = append(op.Refs, c[(perm+i)%len(c)].Origin)
		}
		return op, true
	}
	// reorder: not necessarily the oldest
	k := 0
	if r.Intn(3) > 0 {
		k = r.Intn(len(c))
		if k > 0 {
			s.Stats.Fault("reorder")
		}
	}
	op.Ref = c[k].Origin
	if s.N.Height-c[k].SentAt > 3 {
		s.Stats.Fault("delay")
	}
	if r.Bool(g.gasCutP) {
		op.Gas = uint64(45_000 + r.Intn(260_000))
		op.Rel = NumRelayers - 1 - r.Intn(2) // dedicated relayers for gas-cut txs
	}
	return op, true
}

var cctpIDs = []string{"0", "1", "2", "3", "5", "7", "4294967295"}
var hypIDs = []string{"1", "10", "42161", "8453"}

func (g *genState) genOrbiterAdmin(s *Sim) Op {
	r := g.r
	op := Op{ID: g.id(), K: "admin"}
	protos := []string{"PROTOCOL_CCTP", "PROTOCOL_HYPERLANE", "PROTOCOL_INTERNAL", "PROTOCOL_IBC"}
	pickIDs := func(proto string, n int) []string {
		var pool []string
		switch proto {
		case "PROTOCOL_CCTP":
			pool = cctpIDs
		case "PROTOCOL_HYPERLANE":
			pool = hypIDs
		case "PROTOCOL_INTERNAL":
			pool = []string{"noble", "other"}
		default:
			pool = []string{"channel-0", "channel-2", "channel-4", "channel-9"}
		}
		var ids []string
		for i := 0; i < n; i++ {
			ids = append(ids, pool[r.Intn(len(pool))])
		}
		return ids
	}
	switch r.Intn(12) {
	case 0, 1:
		op.Msg, op.Proto = "PauseProtocol", protos[r.Intn(4)]
	case 2, 3:
		op.Msg, op.Proto = "UnpauseProtocol", protos[r.Intn(3)]
		// prefer something that is paused
		if ks := sortedKeys(s.Model.PausedProto); len(ks) > 0 && r.Intn(4) > 0 {
			op.Proto = ks[r.Intn(len(ks))]
		}
	case 4, 5, 6:
		op.Msg, op.Proto = "PauseCrossChains", protos[r.Intn(4)]
		n := 1
		if r.Intn(3) == 0 {
			n = 2 + r.Intn(3)
		}
		op.Ids = dedupe(pickIDs(op.Proto, n), r.Intn(6) == 0)
		if r.Bool(g.prof.BigBatchP) {
			// a large batch (over the limit of 100, or exactly at it)
			k := []int{100, 101, 150, 60, 99}[r.Intn(5)]
			base := 1000 + 45*r.Intn(4) // batches of one run overlap partly
			op.Proto = []string{"PROTOCOL_CCTP", "PROTOCOL_CCTP", "PROTOCOL_HYPERLANE"}[r.Intn(3)]
			op.Ids = nil
			for i := 0; i < k; i++ {
				op.Ids = append(op.Ids, fmt.Sprintf("%d", base+i))
			}
		}
		if r.Intn(15) == 0 {
			op.Ids = append(op.Ids, pickStr(r, []string{"abc", "", "chan-1", strings.Repeat("9", 33)}))
		}
	case 7, 8:
		op.Msg = "UnpauseCrossChains"
		ks := sortedKeys(s.Model.PausedCC)
		if len(ks) > 0 && r.Intn(5) > 0 {
			k := ks[r.Intn(len(ks))]
			i := strings.Index(k, "|")
			op.Proto = k[:i]
			op.Ids = []string{k[i+1:]}
			// maybe the whole set of that protocol, maybe with one that is not paused
			if r.Intn(3) == 0 {
				op.Ids = nil
				for _, kk := range ks {
					if strings.HasPrefix(kk, op.Proto+"|") && len(op.Ids) < 100 {
						op.Ids = append(op.Ids, kk[i+1:])
					}
				}
			}
			if r.Intn(6) == 0 {
				op.Ids = append(op.Ids, pickIDs(op.Proto, 1)...)
			}
		} else {
			op.Proto = protos[r.Intn(4)]
			op.Ids = pickIDs(op.Proto, 1)
		}
	case 9:
		op.Msg, op.Act = "PauseAction", "ACTION_FEE"
		if r.Intn(4) == 0 {
			op.Act = "ACTION_SWAP"
		}
		if r.Intn(10) == 0 {
			op.Act = pickStr(r, []string{"ACTION_UNSUPPORTED", "ACTION_X", "", "1", "action_fee"})
		}
	case 10:
		op.Msg, op.Act = "UnpauseAction", "ACTION_FEE"
		if ks := sortedKeys(s.Model.PausedAct); len(ks) > 0 && r.Intn(4) > 0 {
			op.Act = ks[r.Intn(len(ks))]
		} else if r.Intn(4) == 0 {
			op.Act = "ACTION_SWAP"
		}
		if r.Intn(14) == 0 {
			op.Act = pickStr(r, []string{"ACTION_UNSUPPORTED", "ACTION_X", ""})
		}
	default:
		op.Msg = "UpdateParams"
		op.N = uint64([]int{0, 0, 1, 16, 64, 100, 1000, 5000, 16384, 16385, 24000}[r.Intn(11)])
		if r.Intn(10) == 0 {
			op.N = 4294967295
		}
	}
	if r.Intn(8) == 0 {
		op.Fail = true // the message is followed by one that fails: nothing of the tx may survive
	}
	if r.Intn(20) == 0 && (op.Msg == "PauseProtocol" || op.Msg == "UnpauseProtocol") {
		op.Proto = pickStr(r, []string{"PROTOCOL_UNSUPPORTED", "PROTOCOL_X", "", "2"})
	}
	return op
}

func dedupe(ids []string, keepDup bool) []string {
	if keepDup {
		return ids
	}
	seen := map[string]bool{}
	var out []string
	for _, i := range ids {
		if !seen[i] {
			out = append(out, i)
			seen[i] = true
		}
	}
	return out
}

func (g *genState) genEnvAdmin(s *Sim) Op {
	r := g.r
	op := Op{ID: g.id(), K: "admin"}
	e := s.EnvM
	// heal with some probability so that runs make progress between faults
	if r.Intn(2) == 0 {
		switch {
		case e.FTFPaused:
			op.Msg = "FTFUnpause"
			return op
		case e.CCTPPaused:
			op.Msg = "CCTPUnpause"
			return op
		case e.CCTPMsgStop:
			op.Msg = "CCTPMsgUnpause"
			return op
		case len(e.Blacklist) > 0:
			ks := sortedKeys(e.Blacklist)
			op.Msg, op.Target = "Unblacklist", s.Env.Name(ks[r.Intn(len(ks))])
			return op
		}
	}
	targets := []string{"fee0", "fee1", "fee2", "rcpt0", "rcpt1", "DUST", "ORBITER", "remote0_0", "remote1_1", "fee3"}
	switch r.Intn(11) {
	case 0:
		op.Msg = "FTFPause"
	case 1, 2, 3:
		op.Msg, op.Target = "Blacklist", targets[r.Intn(len(targets))]
	case 4:
		op.Msg = "CCTPPause"
	case 5:
		op.Msg = "CCTPMsgPause"
	case 6:
		op.Msg, op.N = "BurnLimit", uint64([]int{1, 1000, 100000, 1_000_000_000_000}[r.Intn(4)])
	case 7:
		op.Msg, op.Dom = "RemoveMessenger", CCTPDomains[r.Intn(len(CCTPDomains))]
	case 8:
		op.Msg, op.Dom = "AddMessenger", CCTPDomains[r.Intn(len(CCTPDomains))]
	case 9:
		op.Msg, op.Dom, op.Denom = "UnrollRouter", HypDomains[r.Intn(len(HypDomains))], []string{DenomUSDC, DenomHuge}[r.Intn(2)]
	default:
		op.Msg, op.Dom, op.Denom = "EnrollRouter", HypDomains[r.Intn(len(HypDomains))], []string{DenomUSDC, DenomHuge}[r.Intn(2)]
	}
	return op
}

func (g *genState) genDust(s *Sim) Op {
	r := g.r
	op := Op{ID: g.id(), K: "dust"}
	if r.Intn(5) == 0 {
		// a large deposit (>= 2^63) of the huge-supply denom, from whoever holds enough of it
		two63, _ := sdkmath.NewIntFromString("9223372036854775808")
		var names []string
		for _, a := range append(append([]*Account{}, s.Env.Noble...), append(s.Env.Rcpt, s.Env.FeeRcpt...)...) {
			if s.Ledger.Get(a.Addr.String(), DenomHuge).GTE(two63.MulRaw(4)) {
				names = append(names, a.Name)
			}
		}
		if len(names) > 0 {
			op.Signer, op.Denom = names[r.Intn(len(names))], DenomHuge
			op.Amt = []string{"9223372036854775808", "9223372036854775807", "18446744073709551616", "36893488147419103232"}[r.Intn(4)]
			return op
		}
	}
	op.Denom = []string{DenomUSDC, DenomUSDC, DenomOther, DenomStake}[r.Intn(4)]
	op.Amt = []string{"1", "7", "1000", "123456789"}[r.Intn(4)]
	if r.Bool(g.prof.ModDepositP) {
		op.Target = "mod:" + pickStr(r, []string{"warp", "cctp", "hyperlane", "fiat-tokenfactory", "transfer"})
		return op
	}
	if op.Denom == DenomStake && r.Intn(2) == 0 {
		op.Amt = []string{"51000", "60000", "200000"}[r.Intn(3)]
	}
	return op
}

// Next generates the next op given the current world.
func (g *genState) Next(s *Sim) Op {
	r := g.r
	if !g.started {
		g.started = true
		if r.Bool(g.prof.InitLimitP) {
			return Op{ID: g.id(), K: "admin", Msg: "UpdateParams", N: uint64([]int{16, 64, 1000}[r.Intn(3)])}
		}
	}
	for len(g.script) > 0 && (g.scriptTight || !r.Bool(0.2)) {
		f := g.script[0]
		g.script = g.script[1:]
		if op, ok := f(s); ok {
			return op
		}
	}
	if r.Bool(g.prof.GhostTokenP) && g.ghostTokenScript(s) {
		return g.Next(s)
	}
	kinds := sortedKeys(g.w)
	for tries := 0; tries < 20; tries++ {
		var ws []int
		for _, k := range kinds {
			ws = append(ws, g.w[k])
		}
		k := kinds[r.Pick(ws)]
		switch k {
		case "send":
			return g.genSend(s)
		case "sendout":
			return g.genSendOut(s)
		case "sendodd":
			return g.genSendOddDenom(s)
		case "byz":
			return g.genByz(s)
		case "deliver":
			if op, ok := g.genDeliver(s); ok {
				if s.ModeB != nil && len(op.Refs) <= 1 && len(g.script) == 0 && r.Bool(g.prof.InjectP) {
					// mode B: this delivery gets a block of its own in which one downstream call fails or panics
					inj := fmt.Sprintf("%d:%d", r.Intn(12), 1+r.Intn(3))
					if r.Bool(0.35) {
						inj = fmt.Sprintf("s%d:%d", r.Intn(36), 1+r.Intn(3))
					}
					dop := op
					g.scriptTight = true
					g.script = []func(s *Sim) (Op, bool){
						func(s *Sim) (Op, bool) { return dop, true },
						func(s *Sim) (Op, bool) {
							g.scriptTight = false
							return Op{ID: g.id(), K: "block", Dt: 1 + r.Intn(10), Inject: inj}, true
						},
					}
					if len(s.Mempool) > 0 || s.dirtyState {
						return Op{ID: g.id(), K: "block", Dt: 5}
					}
					return g.Next(s)
				}
				if r.Bool(g.prof.SingleTxP) && len(s.Mempool) > 0 {
					// flush what is pending first so that this delivery gets a block of its own
					return Op{ID: g.id(), K: "block", Dt: 5}
				}
				return op
			}
		case "ack":
			c := g.inflight(s, func(p *Pkt) bool { return p.State == PktReceived })
			if len(c) > 0 {
				return Op{ID: g.id(), K: "ack", Ref: c[r.Intn(len(c))].Origin, Rel: r.Intn(NumRelayers - 2)}
			}
		case "timeout":
			c := g.inflight(s, func(p *Pkt) bool { return p.State == PktInFlight && s.timedOut(p) })
			if len(c) > 0 {
				return Op{ID: g.id(), K: "timeout", Ref: c[r.Intn(len(c))].Origin, Rel: r.Intn(NumRelayers - 2)}
			}
		case "block":
			op := Op{ID: g.id(), K: "block", Dt: 1 + r.Intn(10)}
			if r.Intn(15) == 0 {
				op.Dt = 3600 * (1 + r.Intn(48))
			}
			if len(s.Mempool) > 1 && r.Intn(3) == 0 {
				op.Perm = r.U64() | 1
			}
			if len(s.Mempool) > 0 && r.Bool(g.prof.CrashP) {
				op.Crash = true
			}
			if len(s.Mempool) > 0 && r.Bool(g.prof.SimP) {
				op.Sim = r.U64() | 1<<uint(r.Intn(len(s.Mempool)))
			}
			if s.ModeB != nil && len(s.Mempool) == 1 && r.Bool(g.prof.InjectP) {
				op.Inject = fmt.Sprintf("%d:%d", r.Intn(14), 1+r.Intn(3))
				if r.Bool(0.35) {
					op.Inject = fmt.Sprintf("s%d:%d", r.Intn(36), 1+r.Intn(3))
				}
			}
			return op
		case "restart":
			return Op{ID: g.id(), K: "restart"}
		case "dust":
			return g.genDust(s)
		case "orbadmin":
			return g.genOrbiterAdmin(s)
		case "envadmin":
			return g.genEnvAdmin(s)
		case "impostor":
			return g.genImpostor(s)
		case "checkpoint":
			return Op{ID: g.id(), K: "checkpoint", N: r.U64()}
		}
	}
	return Op{ID: g.id(), K: "block", Dt: 5}
}

func (g *genState) genImpostor(s *Sim) Op {
	op := g.genOrbiterAdmin(s)
	r := g.r
	signers := []string{"impostor", "noble1", "circle", "hypowner", "relayer0", "depositor"}
	op.Signer = signers[r.Intn(len(signers))]
	return op
}

// ghostTokenScript queues a scenario around a Hyperlane token that exists only in a discarded
// execution: a transfer names the identifier the *next* token will get; a transaction that would create
// that token for the transfer's denomination, enrol its routers and deliver the transfer is simulated
// on the node (as a client estimating gas does) and never broadcast; then the identifier is really
// taken by a token for another denomination, somebody deposits that denomination on the orbiter
// account, and the transfer is delivered. Ordinary random ops interleave between the steps.
func (g *genState) ghostTokenScript(s *Sim) bool {
	r := g.r
	denom := []string{DenomUSDC, DenomOther}[r.Intn(2)]
	other := map[string]string{DenomUSDC: DenomOther, DenomOther: DenomUSDC}[denom]
	if r.Intn(4) == 0 {
		other = denom // the identifier is taken by a token of the same denomination: a plain new route
	}
	pair, user := r.Intn(NumPairs), r.Intn(NumRemote)
	bal := s.Ledger.Get(s.Env.Remote[pair][user].Addr.String(), voucherOnB(pair, denom)).BigInt()
	A := g.genAmount(denom, nil)
	if A.Cmp(big.NewInt(1_000_000_000)) > 0 {
		A = big.NewInt(1 + int64(r.Intn(1_000_000)))
	}
	if bal.Cmp(A) < 0 {
		return false
	}
	sendID := -1
	g.script = append(g.script,
		func(s *Sim) (Op, bool) { return Op{ID: g.id(), K: "block", Dt: 5}, len(s.Mempool) > 0 || s.dirtyState },
		func(s *Sim) (Op, bool) {
			id, ok := s.predictTokenID(denom)
			if !ok {
				g.script = nil
				return Op{}, false
			}
			tok, err := hyputil.DecodeHexAddress(id)
			if err != nil {
				g.script = nil
				return Op{}, false
			}
			p := &MPayload{Proto: "PROTOCOL_HYPERLANE", Token: tok.Bytes(), Domain: HypDomains[r.Intn(len(HypDomains))], Recipient32: g.rcptBytes(), GasLimit: "0", MaxFeeDenom: denom, MaxFeeAmt: "0", PTNull: true}
			if r.Intn(3) == 0 {
				p.HasFee, p.Fees = g.genFees(s, A)
			}
			op := Op{ID: g.id(), K: "send", Pair: pair, User: user, Denom: denom, Amt: A.String(), Recv: s.Env.Orbiter.String(), Memo: p.Canonical(), Class: "free:newtoken"}
			sendID = op.ID
			return op, true
		},
		func(s *Sim) (Op, bool) { return Op{ID: g.id(), K: "block", Dt: 5}, true },
		func(s *Sim) (Op, bool) {
			if r.Intn(6) == 0 {
				return Op{}, false // no ghost: the plain history
			}
			return Op{ID: g.id(), K: "hyptoken", Denom: denom, Ghost: true, Ref: sendID}, true
		},
		func(s *Sim) (Op, bool) {
			if r.Intn(8) == 0 {
				return Op{}, false // the identifier stays free
			}
			return Op{ID: g.id(), K: "hyptoken", Denom: other}, true
		},
		func(s *Sim) (Op, bool) {
			if r.Intn(5) == 0 {
				return Op{}, false
			}
			amt := new(big.Int).Add(A, big.NewInt(int64(r.Intn(3))-1))
			if amt.Sign() <= 0 {
				amt = big.NewInt(1)
			}
			return Op{ID: g.id(), K: "dust", Denom: other, Amt: amt.String()}, true
		},
		func(s *Sim) (Op, bool) { return Op{ID: g.id(), K: "block", Dt: 5}, true },
		func(s *Sim) (Op, bool) {
			if p := s.byOrigin[sendID]; p == nil || p.State != PktInFlight {
				return Op{}, false
			}
			return Op{ID: g.id(), K: "deliver", Ref: sendID, Rel: r.Intn(NumRelayers - 2)}, true
		},
		func(s *Sim) (Op, bool) { return Op{ID: g.id(), K: "block", Dt: 5}, true },
	)
	s.Stats.Probe("ghost_token_scenario")
	return true
}
