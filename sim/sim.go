package main

// The simulation engine: mempool, block production (the simulator is consensus),
// packet registry (the simulator is the relayer), per-transaction observation and
// the hooks where oracles run.

import (
	"fmt"
	"os"
	"math/big"
	"sort"
	"strconv"
	"strings"

	"github.com/noble-assets/orbiter/v2/types/core"
	"time"

	abci "github.com/cometbft/cometbft/abci/types"
)

type Violation struct {
	Prop   string `json:"property"`
	Rule   string `json:"rule"`
	FP     string `json:"fingerprint"` // discriminating feature (stable across seeds)
	Detail string `json:"detail"`
	OpID   int    `json:"op_id"`
	Height int64  `json:"height"`
}

func (v Violation) Key() string { return v.Prop + "/" + v.Rule + "/" + v.FP }

type RunStats struct {
	Blocks, Txs, Events int
	SimSeconds          int64
	Skipped             int
	Counts              map[string]int // generic counters (packets by class/outcome, rule evaluations)
	Faults              map[string]int // fault kinds that actually fired
	Probes              map[string]int // "rare condition reached" probes
	States              map[string]bool
	Grams               map[string]bool
	lastKinds           []string
	Samples             []string
}

func newRunStats() *RunStats {
	return &RunStats{Counts: map[string]int{}, Faults: map[string]int{}, Probes: map[string]int{}, States: map[string]bool{}, Grams: map[string]bool{}}
}

func (r *RunStats) Count(k string) { r.Counts[k]++ }
func (r *RunStats) Fault(k string) { r.Faults[k]++ }
func (r *RunStats) Probe(k string) { r.Probes[k]++ }
func (r *RunStats) Gram(kind string) {
	r.lastKinds = append(r.lastKinds, kind)
	if len(r.lastKinds) > 4 {
		r.lastKinds = r.lastKinds[1:]
	}
	if len(r.lastKinds) == 4 {
		r.Grams[strings.Join(r.lastKinds, ">")] = true
	}
}

type Sim struct {
	N       *Node
	Env     *Env
	Prof    *Profile
	Mempool []*PendingTx
	Packets []*Pkt
	byOrigin map[int]*Pkt
	Model   *OrbModel
	EnvM    *EnvModel
	Ledger  *Ledger // committed ledger, maintained from events and cross-checked
	Viol    []Violation
	Stats   *RunStats
	Log     []string // readable event trace
	opCount int
	curOp   int
	dirtyState bool
	// exactly-once bookkeeping (C05): outgoing bridge messages per packet origin
	HashLog  []string // per block: height, apphash, tx results digest (for C19)
	AckLog   []string // every acknowledgement written, in order (for C19 diagnostics)
	Verbose  bool
	ModeB    *ModeB
	// extension hooks
	afterBlockHooks []func(s *Sim)
	statsTainted bool
	RestartEveryBlock bool // C19: the node is rebuilt from the DB before every block (restarts must be invisible)
	orbDigest    string
	escrowGifts  map[string]*big.Int
	resyncPause  bool
	lastDigests map[string]string
	qNode       *Node  // when set, ABCI queries of the audits go to this instance
	qTag        string // and their fingerprints carry this tag
}

func NewSim(prof *Profile) *Sim { return newSimWith(prof, nil) }

func newSimWith(prof *Profile, onBoot func(n *Node)) *Sim {
	n := NewWorld(onBoot)
	s := &Sim{N: n, Env: n.Env, Prof: prof, byOrigin: map[int]*Pkt{}, Model: NewOrbModel(), EnvM: NewEnvModel(), Stats: newRunStats()}
	s.Ledger = n.LedgerAt(n.Ctx())
	return s
}

func (s *Sim) logf(f string, a ...any) {
	line := fmt.Sprintf("h=%d t=%d ", s.N.Height, s.N.Now().Unix()-GenesisTime.Unix()) + fmt.Sprintf(f, a...)
	s.Log = append(s.Log, line)
	if s.Verbose {
		fmt.Println(line)
	}
}

func (s *Sim) violate(prop, rule, fp, detail string) {
	fp += s.qTag
	v := Violation{Prop: prop, Rule: rule, FP: fp, Detail: detail, OpID: s.curOp, Height: s.N.Height}
	s.Viol = append(s.Viol, v)
	s.logf("VIOLATION %s %s [%s] %s", prop, rule, fp, detail)
}

func (s *Sim) flushBlockIfPending() {
	if s.dirtyState {
		s.produceBlock(nil, 5, 0)
	}
}

func (s *Sim) execBlock(op Op) {
	txs := permute(s.Mempool, op.Perm)
	s.Mempool = nil
	dt := op.Dt
	if dt <= 0 {
		dt = 5
	}
	if dt > 600 {
		s.Stats.Fault("clock_jump")
	}
	if op.Sim != 0 {
		// clients estimate gas by simulating on the node before they broadcast: the simulated execution
		// runs the real message handlers on a discarded branch of the committed state
		for i, t := range txs {
			if op.Sim&(1<<(uint(i)%64)) != 0 {
				_, err := s.N.Simulate(t.Signer, t.Gas, t.Msgs...)
				s.Stats.Fault("simulated_tx_discarded")
				if err == nil {
					s.Stats.Probe("simulated_tx_ran_ok")
				}
				if m, ok := t.Meta.(*txMeta); ok && m.Kind == "orbiter" && m.Op.Signer != "" && !m.Op.Fail {
					// an authority-only message signed by somebody else fails however it is executed
					s.Stats.Count("rule:C10.simulated-tx")
					if err == nil {
						s.violate("C10", "only-authority", "non-authority message succeeds when simulated msg="+m.Op.Msg, fmt.Sprintf("op %d: %s signed by %s succeeds in a gas-estimation run on the node", m.OpID, m.Op.Msg, m.Op.Signer))
					}
				}
			}
		}
		if s.ModeB != nil {
			s.ModeB.Reset(nil)
		}
	}
	inject := false
	if s.ModeB != nil && op.Inject != "" && len(txs) == 1 {
		if m, ok := txs[0].Meta.(*txMeta); ok && m.Kind == "recv" && len(m.Pkts) == 1 && m.Pkts[0].State == PktInFlight {
			var idx, mode int
			spec, store := op.Inject, false
			if strings.HasPrefix(spec, "s") { // the call index counts the orbiter's own store calls too
				spec, store = spec[1:], true
			}
			if _, err := fmt.Sscanf(spec, "%d:%d", &idx, &mode); err == nil && (mode == faultBefore || mode == faultAfter || mode == faultPanic) {
				s.ModeB.Reset(map[int]int{idx: mode})
				s.ModeB.Plan.Store = store
				errClass = (idx + mode) % len(injectedErrClasses)
				inject = true
			}
		}
	}
	if op.Crash && !s.dirtyState && !inject {
		s.N.CrashBeforeCommit = true
		s.Stats.Fault("crash_between_execution_and_commit")
	}
	s.produceBlock(txs, dt, op.ID)
	if inject {
		m := txs[0].Meta.(*txMeta)
		p := m.Pkts[0]
		if len(s.ModeB.Plan.Fired) > 0 {
			site := s.ModeB.Plan.Calls[s.ModeB.Plan.Fired[0]].Site
			if s.ModeB.Plan.Fail[s.ModeB.Plan.Fired[0]] == faultPanic {
				if site != "bank.GetBalance" { // a balance read has no error to return and is not made to panic
					s.Stats.Fault("injected_panic:" + site)
				}
			} else {
				s.Stats.Fault("injected_error:" + site)
			}
			s.Stats.Count("rule:C03.injected-in-history")
			// tolerated by design (see storeFaultPass): a statistics write after the bridge request, and the read of
			// the parameters (limit assumed zero); every other monitor of the run stays on for such a delivery
			tolerated := false
			if strings.HasPrefix(site, "store.") {
				for _, c := range s.ModeB.Plan.Calls[:s.ModeB.Plan.Fired[0]] {
					if isBridgeSite(c.Site) {
						tolerated = true
					}
				}
				if site == storeSite("Get", core.AdapterParamsPrefix.Bytes()) {
					tolerated = true
				}
			}
			if tolerated && site != storeSite("Get", core.AdapterParamsPrefix.Bytes()) && p.State == PktReceived && decodeAck(p.Ack).Success {
				// the transfer stands, its statistics may be lost (logged by the dispatcher): the fold comparison of
				// this run ends here; what such a failure may and may not change is decided by C03's store-fault pass
				s.statsTainted = true
			}
			if site != "bank.GetBalance" && !tolerated && p.State == PktReceived && decodeAck(p.Ack).Success {
				s.violate("C03", "failure-implies-error-ack", "swallowed-failure (random history) site="+site, fmt.Sprintf("packet op=%d: call %s failed (%s) during its delivery but the acknowledgement is a success", p.Origin, site, op.Inject))
			}
		}
		s.ModeB.Plan.Store = false
		s.ModeB.Reset(nil)
	}
}

func (s *Sim) produceBlock(txs []*PendingTx, dtSec int, opID int) {
	if s.RestartEveryBlock && !s.dirtyState {
		s.N.Restart()
	}
	// shadows run on the committed pre-block state
	for _, t := range txs {
		if m, ok := t.Meta.(*txMeta); ok && m.Kind == "recv" {
			m.soleInBlock = len(txs) == 1 && len(m.Pkts) == 1
			s.preDelivery(m)
		}
	}
	var preDig map[string]string
	if s.Prof.StoreDigests {
		if s.lastDigests == nil {
			s.lastDigests = s.N.StoreDigests(s.N.Ctx())
		}
		preDig = s.lastDigests
	}
	res := s.N.Block(txs, time.Duration(dtSec)*time.Second)
	if s.N.CrashDiff != "" {
		s.violate("C19", "replay-identical", "re-execution-after-crash-differs", fmt.Sprintf("block %d was executed, the node crashed before committing it, and the second execution after the restart differs: %s", s.N.Height, s.N.CrashDiff))
	}
	s.dirtyState = false
	s.Stats.Blocks++
	s.Stats.SimSeconds += int64(dtSec)
	s.Stats.Txs += len(txs)
	allRefused := len(txs) > 0
	hl := fmt.Sprintf("%d %x", s.N.Height, res.AppHash)
	for i, t := range txs {
		r := res.TxResults[i]
		s.Stats.Events += len(r.Events)
		obs := observeTx(r)
		hl += fmt.Sprintf(" [code=%d/%s gas=%d ev=%s]", r.Code, r.Codespace, r.GasUsed, eventsDigest(r.Events))
		m, _ := t.Meta.(*txMeta)
		if m == nil {
			m = &txMeta{Kind: "other"}
		}
		s.curOp = m.OpID
		refused := s.handleTx(t, m, obs, r)
		if !refused {
			allRefused = false
		}
	}
	s.HashLog = append(s.HashLog, hl)
	// harness sanity: the ledger maintained from bank events equals the real bank state
	real := s.N.LedgerAt(s.N.Ctx())
	if d := s.Ledger.Diff(real); len(d) > 0 {
		panic(harnessErr("ledger derived from bank events differs from bank state at height %d: %v", s.N.Height, d))
	}
	s.Ledger = real
	if s.Prof.StoreDigests {
		post := s.N.StoreDigests(s.N.Ctx())
		s.lastDigests = post
		if allRefused {
			// U2: a block made only of refused deliveries / failed txs leaves every application store untouched
			for _, name := range AppStores {
				if preDig[name] != post[name] {
					s.violate("C03", "U2-error-ack-no-effect", "store="+name, fmt.Sprintf("block %d contained only refused/failed txs but store %q changed (%s -> %s)", s.N.Height, name, preDig[name], post[name]))
				}
			}
			s.Stats.Count("rule:U2-block")
		}
	}
	s.afterBlock()
}

func eventsDigest(evs []abci.Event) string {
	h := uint64(1469598103934665603)
	mix := func(s string) {
		for i := 0; i < len(s); i++ {
			h ^= uint64(s[i])
			h *= 1099511628211
		}
		h ^= 0xff
		h *= 1099511628211
	}
	for _, e := range evs {
		mix(e.Type)
		for _, a := range e.Attributes {
			mix(a.Key)
			mix(normPtr(a.Value))
		}
	}
	return strconv.FormatUint(h, 16)
}

// applyToLedger adds the bank effects of one message to the running ledger.
func (s *Sim) applyToLedger(m *MsgObs) {
	for addr, dm := range m.Delta {
		for denom, v := range dm {
			if s.Ledger.Bal[addr] == nil {
				s.Ledger.Bal[addr] = map[string]sdkInt{}
			}
			cur := s.Ledger.Get(addr, denom).BigInt()
			cur.Add(cur, v)
			if cur.Sign() < 0 {
				panic(harnessErr("negative running balance for %s %s", addr, denom))
			}
			if cur.Sign() == 0 {
				delete(s.Ledger.Bal[addr], denom)
				if len(s.Ledger.Bal[addr]) == 0 {
					delete(s.Ledger.Bal, addr)
				}
			} else {
				s.Ledger.Bal[addr][denom] = newSdkInt(cur)
			}
		}
	}
	for denom, v := range m.Supply {
		cur := new(big.Int)
		if x, ok := s.Ledger.Supply[denom]; ok {
			cur = x.BigInt()
		}
		cur.Add(cur, v)
		if cur.Sign() == 0 {
			delete(s.Ledger.Supply, denom)
		} else {
			s.Ledger.Supply[denom] = newSdkInt(cur)
		}
	}
}

// handleTx interprets one tx result. It returns true when the tx left no application
// effect by construction (failed tx, or deliveries that were all refused / no-ops).
func (s *Sim) handleTx(t *PendingTx, m *txMeta, obs *TxObs, r *abci.ExecTxResult) (refused bool) {
	kind := m.Kind
	s.Stats.Gram(kind + ":" + strconv.Itoa(int(min32(obs.Code, 99))))
	if obs.IsPanic() && kind != "recv" {
		// not the receive path (C14 speaks about receiving): note it, never a violation
		s.Stats.Count("panic_outside_receive_path:" + kind)
		s.logf("note: tx of op %d (%s) aborted by a panic outside the receive path: %.200s", m.OpID, kind, oneLine(obs.Log))
	}
	if kind == "recv" {
		s.Stats.Count("rule:C14.no-panic")
	}
	injectedPanic := obs.IsPanic() && s.ModeB != nil && len(s.ModeB.Plan.Fired) > 0 && s.ModeB.Plan.Fail[s.ModeB.Plan.Fired[0]] == faultPanic
	if injectedPanic {
		// the harness made a downstream module panic: an aborted transaction is a legitimate outcome
		s.Stats.Count("injected_panic_aborted_tx")
	}
	plainOnly := kind == "recv" && len(m.Pkts) > 0
	for _, p := range m.Pkts {
		if s.classify(p).ToOrbiter {
			plainOnly = false
		}
	}
	if obs.IsPanic() && kind == "recv" && !plainOnly && len(m.Pkts) > 1 {
		// a batch: which of its packets panics when delivered on its own (on a branch of the state as it is now)?
		culprits, orbiterCulprit := 0, false
		for _, p := range m.Pkts {
			if p.State != PktInFlight {
				continue
			}
			v := s.runVariant("culprit", nil, false, s.recvCB(s.stackFull(), p.packet(), s.Env.Relayers[0].Addr))
			if v.Panic != "" && v.Panic != "out of gas" {
				culprits++
				p.Poisoned = true
				if s.classify(p).ToOrbiter {
					orbiterCulprit = true
				}
			}
		}
		if culprits > 0 && !orbiterCulprit {
			plainOnly = true // every packet that panics by itself is one the orbiter only passes through
		}
	}
	if obs.IsPanic() && kind == "recv" && plainOnly && !injectedPanic {
		// no packet of this transaction is for the orbiter: the panic is the wrapped application's own (C14 speaks
		// about the orbiter's handling; C07 demands that such a packet behaves exactly as without the middleware,
		// which the twin worlds decide: with and without it the delivery must panic alike)
		s.Stats.Count("panic_in_wrapped_application_for_plain_packet")
		s.logf("note: tx of op %d aborted by a panic while delivering packets that are not for the orbiter: %.200s", m.OpID, oneLine(obs.Log))
		for i, p := range m.Pkts {
			if i < len(m.Shadow) && m.Shadow[i] != nil && m.Shadow[i].V["base"] != nil {
				s.c07Differential(p, s.classify(p), m.Shadow[i], m.Shadow[i].V["base"])
			}
		}
	}
	if obs.IsPanic() && kind == "recv" && !injectedPanic && !plainOnly {
		if os.Getenv("VERIF_STACK") != "" {
			fmt.Println(obs.Log)
		}
		fp := panicFingerprint(obs.Log)
		s.violate("C14", "U1-no-panic", fp, fmt.Sprintf("tx of op %d (%s) aborted by a recovered panic: %.200s", m.OpID, kind, oneLine(obs.Log)))
		// what a pause promises is a refusal with an error acknowledgement: an aborted transaction is not one
		if len(m.Pkts) == 1 && m.Pkts[0].State == PktInFlight {
			if in := s.classify(m.Pkts[0]); in.ToOrbiter {
				pl := in.Payload
				if pl == nil {
					pl = &MPayload{}
				}
				if (pl.HasFee && s.Model.PausedAct["ACTION_FEE"]) || (strings.Contains(in.D.Memo, `"id":"ACTION_SWAP"`) && s.Model.PausedAct["ACTION_SWAP"]) {
					s.violate("C09", "enforcement", "paused-action-not-refused-with-an-error-acknowledgement (transaction aborted)", fmt.Sprintf("packet op=%d carries a paused action; its delivery aborted the relayer's transaction instead of writing an error acknowledgement: %.160s", m.Pkts[0].Origin, oneLine(obs.Log)))
				}
				if in.Canon && s.Model.IsPaused(pl.Proto, pl.Counterparty()) {
					s.violate("C08", "enforcement", "paused-destination-not-refused-with-an-error-acknowledgement (transaction aborted)", fmt.Sprintf("packet op=%d names a paused destination; its delivery aborted the relayer's transaction instead of writing an error acknowledgement: %.160s", m.Pkts[0].Origin, oneLine(obs.Log)))
				}
			}
		}
	}
	if obs.Code != 0 {
		s.logf("tx op=%d %s FAILED code=%d/%s %.160s", m.OpID, kind, obs.Code, obs.Codespace, oneLine(obs.Log))
		switch kind {
		case "recv":
			if obs.IsOutOfGas() && m.GasCut {
				s.Stats.Fault("out_of_gas")
				s.Stats.Fault("out_of_gas@" + gasBucket(obs.GasUsed))
			} else if strings.Contains(obs.Log, "timeout") {
				s.Stats.Fault("late_delivery_after_timeout")
			} else if !obs.IsPanic() {
				if len(m.Pkts) > 1 {
					s.Stats.Fault("batch_with_poison_packet")
				} else {
					s.Stats.Count("recv_tx_failed_other")
					s.logf("note: recv tx failed for another reason: %s", oneLine(obs.Log))
				}
			}
			if len(m.Pkts) > 1 && obs.IsPanic() {
				s.Stats.Fault("batch_with_poison_packet")
			}
			if len(m.Pkts) == 1 && obs.IsPanic() && !injectedPanic {
				m.Pkts[0].Poisoned = true
			}
		}
		s.onTxFailed(m, obs)
		return true
	}
	// successful tx: apply bank effects message by message, running oracles in between
	refused = kind == "recv"
	if ante := obs.Msgs[-1]; ante != nil {
		s.applyToLedger(ante)
	}
	idxs := obs.msgIdxs()
	switch kind {
	case "recv":
		for i, p := range m.Pkts {
			mo := obs.Msgs[i]
			if mo == nil {
				mo = newMsgObs()
			}
			var sh *shadowResult
			if i < len(m.Shadow) {
				sh = m.Shadow[i]
			}
			if !s.handleDelivery(m, p, mo, sh) {
				refused = false
			}
			s.applyToLedger(mo)
		}
	default:
		for _, i := range idxs {
			s.applyToLedger(obs.Msgs[i])
		}
		s.handleOther(t, m, obs)
	}
	return refused
}

func min32(a uint32, b uint32) uint32 {
	if a < b {
		return a
	}
	return b
}

func oneLine(s string) string {
	if i := strings.Index(s, "\n"); i >= 0 {
		s = s[:i]
	}
	return s
}

func gasBucket(g int64) string {
	switch {
	case g < 60_000:
		return "lt60k"
	case g < 90_000:
		return "lt90k"
	case g < 130_000:
		return "lt130k"
	case g < 200_000:
		return "lt200k"
	}
	return "ge200k"
}

func (s *Sim) onTxFailed(m *txMeta, obs *TxObs) {
	switch m.Kind {
	case "orbiter":
		s.adminResult(m, false, obs)
	case "env":
		s.logf("env admin %s failed: %s", m.Op.Msg, oneLine(obs.Log))
	case "ack", "timeout":
		p := m.Pkts[0]
		if p.Byz || obs.IsPanic() {
			p.State = PktAbandoned
		} else {
			// e.g. the refund is refused while the token factory is paused: the relayer retries later
			s.Stats.Count("ack_or_timeout_tx_failed")
		}
	}
}

// handleOther: non-delivery txs.
func (s *Sim) handleOther(t *PendingTx, m *txMeta, obs *TxObs) {
	switch m.Kind {
	case "send", "sendout":
		for _, i := range obs.msgIdxs() {
			for _, a := range obs.Msgs[i].find("send_packet") {
				p := s.pktFromEvent(a)
				p.Origin = m.OpID
				p.Class = m.Class
				p.SentAt = s.N.Height
				s.Packets = append(s.Packets, p)
				s.byOrigin[m.OpID] = p
				s.Stats.Count("packets_sent")
				s.logf("sent op=%d %s->%s seq=%d class=%s data=%.300s", m.OpID, p.SrcChan, p.DstChan, p.Seq, p.Class, string(p.Data))
			}
		}
	case "ack":
		p := m.Pkts[0]
		found := false
		for _, i := range obs.msgIdxs() {
			if len(obs.Msgs[i].find("acknowledge_packet")) > 0 && p.State == PktReceived {
				found = true
				s.checkRefund(p, obs.Msgs[i])
			}
		}
		if found {
			p.State = PktAcked
		} else {
			s.Stats.Fault("dup_ack_relay")
		}
	case "timeout":
		p := m.Pkts[0]
		for _, i := range obs.msgIdxs() {
			if len(obs.Msgs[i].find("timeout_packet")) > 0 {
				p.State = PktTimedOut
				s.Stats.Fault("drop_to_timeout")
			}
		}
	case "orbiter":
		s.adminResult(m, true, obs)
	case "env":
		s.envResult(m)
	case "dust":
		s.Stats.Count("dust_deposits")
		if strings.HasPrefix(m.Op.Target, "mod:") {
			if s.squatted(m.Op.Target[4:]) {
				s.Stats.Fault("module_address_taken_by_plain_account:" + m.Op.Target[4:])
			} else {
				s.Stats.Count("deposit_to_existing_module_account")
			}
		}
	}
}

func (s *Sim) pktFromEvent(a map[string]string) *Pkt {
	seq, _ := strconv.ParseUint(a["packet_sequence"], 10, 64)
	p := &Pkt{Seq: seq, SrcChan: a["packet_src_channel"], DstChan: a["packet_dst_channel"], Data: hexOf(a, "packet_data")}
	p.TOTime, _ = strconv.ParseUint(a["packet_timeout_timestamp"], 10, 64)
	if th := a["packet_timeout_height"]; th != "" {
		parts := strings.Split(th, "-")
		if len(parts) == 2 {
			p.TOHeight, _ = strconv.ParseUint(parts[1], 10, 64)
		}
	}
	return p
}

// drain: faults stop, everything outstanding is relayed; then the environment is healed,
// one known-good probe per route must go through within a bounded number of blocks
// (bounded liveness: "once faults stop, transfers are served"), then end-of-run audits.
func (s *Sim) drain() {
	// drop whatever the relayers had queued; they start over
	s.Mempool = nil
	s.heal()
	s.relayAll()
	s.probes()
	s.relayAll()
	for _, p := range s.Packets {
		if (p.State == PktInFlight || p.State == PktReceived) && !p.Poisoned && len(s.Viol) == 0 {
			panic(harnessErr("drain did not settle packet op=%d (state %d)", p.Origin, p.State))
		}
	}
	s.endOfRun()
}

// timedOut: the packet's timeout (height or timestamp) has provably passed at the last committed block.
func (s *Sim) timedOut(p *Pkt) bool {
	if p.TOHeight != 0 && uint64(s.N.Height) >= p.TOHeight {
		return true
	}
	return p.TOTime != 0 && p.TOTime != s.farTimeout() && uint64(s.N.Now().UnixNano()) >= p.TOTime
}

// expiring: deliverable no more (the next block is at or past the timeout) but not yet provably timed out.
func (s *Sim) expiring(p *Pkt) bool {
	if s.timedOut(p) {
		return false
	}
	if p.TOHeight != 0 && uint64(s.N.Height+1) >= p.TOHeight {
		return true
	}
	return p.TOTime != 0 && p.TOTime != s.farTimeout() && uint64(s.N.Now().Add(5*time.Second).UnixNano()) >= p.TOTime
}

func (s *Sim) relayAll() {
	for round := 0; round < 40; round++ {
		progress := false
		for _, p := range s.sortedPackets() {
			if p.Poisoned {
				continue
			}
			switch p.State {
			case PktInFlight:
				switch {
				case s.timedOut(p):
					s.execTimeout(Op{ID: -1, K: "timeout", Ref: p.Origin})
				case s.expiring(p):
					// neither deliverable nor provably timed out yet: wait one block
				default:
					s.execDeliver(Op{ID: -1, K: "deliver", Ref: p.Origin})
				}
				progress = true
			case PktReceived:
				s.execAck(Op{ID: -1, K: "ack", Ref: p.Origin})
				progress = true
			}
		}
		if !progress && len(s.Mempool) == 0 {
			return
		}
		txs := s.Mempool
		s.Mempool = nil
		if len(txs) == 0 {
			s.produceBlock(nil, 5, -1)
		}
		for _, t := range txs {
			s.produceBlock([]*PendingTx{t}, 5, -1) // one tx per block: exact deltas
		}
	}
}

func (s *Sim) adminNow(op Op) {
	op.ID = -1
	op.K = "admin"
	s.execAdmin(op)
	txs := s.Mempool
	s.Mempool = nil
	for _, t := range txs {
		s.produceBlock([]*PendingTx{t}, 5, -1)
	}
}

// heal: every fault the simulator's own admin actors injected is undone with real messages.
func (s *Sim) heal() {
	e := s.EnvM
	if e.FTFPaused {
		s.adminNow(Op{Msg: "FTFUnpause"})
	}
	if e.CCTPPaused {
		s.adminNow(Op{Msg: "CCTPUnpause"})
	}
	if e.CCTPMsgStop {
		s.adminNow(Op{Msg: "CCTPMsgUnpause"})
	}
	for _, a := range sortedKeys(e.Blacklist) {
		s.adminNow(Op{Msg: "Unblacklist", Target: s.Env.Name(a)})
	}
	if e.BurnLimit.Cmp(BurnLimit.BigInt()) != 0 {
		s.adminNow(Op{Msg: "BurnLimit", N: BurnLimit.Uint64()})
	}
	for _, d := range CCTPDomains {
		if !e.Messenger[d] {
			s.adminNow(Op{Msg: "AddMessenger", Dom: d})
		}
	}
	for _, den := range []string{DenomUSDC, DenomHuge} {
		for _, d := range HypDomains {
			if !e.Router[den][d] {
				s.adminNow(Op{Msg: "EnrollRouter", Dom: d, Denom: den})
			}
		}
	}
	for _, p := range sortedKeys(s.Model.PausedProto) {
		s.adminNow(Op{Msg: "UnpauseProtocol", Proto: p})
	}
	byProto := map[string][]string{}
	for _, k := range sortedKeys(s.Model.PausedCC) {
		i := strings.Index(k, "|")
		byProto[k[:i]] = append(byProto[k[:i]], k[i+1:])
	}
	for _, p := range sortedKeys(byProto) {
		ids := byProto[p]
		for len(ids) > 0 {
			n := len(ids)
			if n > 100 {
				n = 100
			}
			s.adminNow(Op{Msg: "UnpauseCrossChains", Proto: p, Ids: ids[:n]})
			ids = ids[n:]
		}
	}
	for _, a := range sortedKeys(s.Model.PausedAct) {
		s.adminNow(Op{Msg: "UnpauseAction", Act: a})
	}
	s.adminNow(Op{Msg: "UpdateParams", N: 64})
}

// probes: one known-good transfer per route, sent and relayed for real.
func (s *Sim) probes() {
	e := s.Env
	mk := func(p *MPayload) string {
		p.HasFee = true
		p.Fees = []MFee{{Recipient: e.FeeRcpt[0].Addr.String(), IsBPS: true, BPS: 25}}
		return p.Canonical()
	}
	memos := []string{
		mk(&MPayload{Proto: "PROTOCOL_CCTP", Domain: CCTPDomains[0], MintRecipient: pad32(7), PTNull: true}),
		mk(&MPayload{Proto: "PROTOCOL_HYPERLANE", Token: e.HypTokens[DenomUSDC].Bytes(), Domain: HypDomains[0], Recipient32: pad32(8), GasLimit: "0", MaxFeeDenom: DenomUSDC, MaxFeeAmt: "0", PTNull: true}),
		mk(&MPayload{Proto: "PROTOCOL_INTERNAL", Recipient: e.Rcpt[0].Addr.String(), Passthrough: []byte("probe")}),
	}
	for i, m := range memos {
		id := -100 - i
		s.execSend(Op{ID: id, K: "send", Pair: i % NumPairs, User: 1, Denom: DenomUSDC, Amt: "40000", Recv: e.Orbiter.String(), Memo: m, Class: "probe"})
	}
	txs := s.Mempool
	s.Mempool = nil
	for _, t := range txs {
		s.produceBlock([]*PendingTx{t}, 5, -1)
	}
	s.relayAll()
	for i := range memos {
		p := s.byOrigin[-100-i]
		s.Stats.Count("rule:liveness-probe")
		if p == nil {
			panic(harnessErr("probe %d was not sent", i))
		}
		if p.Poisoned {
			continue // its delivery panicked; that is reported by the no-panic rule
		}
		bricked := false
		for _, mod := range bridgeModules[[]string{"PROTOCOL_CCTP", "PROTOCOL_HYPERLANE", "PROTOCOL_INTERNAL"}[i]] {
			if s.squatted(mod) {
				bricked = true // nothing an operator can heal: the module's address is taken by a plain account
			}
		}
		if bricked {
			s.Stats.Count("probe_skipped_bridge_module_address_taken")
			continue
		}
		if !decodeAck(p.Ack).Success {
			s.violate("C08", "bounded-liveness", fmt.Sprintf("probe-refused route=%d", i), fmt.Sprintf("after all faults were healed and all pauses lifted, a known-good probe transfer was refused: %.300s", string(p.Ack)))
		}
	}
}

func (s *Sim) sortedPackets() []*Pkt {
	ps := append([]*Pkt(nil), s.Packets...)
	sort.SliceStable(ps, func(i, j int) bool { return ps[i].Origin < ps[j].Origin })
	return ps
}
