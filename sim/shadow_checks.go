package main

// preDelivery runs the shadow variants a profile asks for on the committed pre-block state.
func (s *Sim) preDelivery(m *txMeta) {
	if len(s.Prof.Shadows) == 0 {
		return
	}
	m.Shadow = nil
	m.ModelAtShadow = s.Model.Clone()
	m.DustBlacklistedAtShadow = s.EnvM.Blacklist[s.Env.Dust.String()]
	s.orbDigest = digestStore(s.N.Ctx().KVStore(s.N.App.GetKey("orbiter")))
	for _, p := range m.Pkts {
		m.Shadow = append(m.Shadow, s.runShadows(p))
	}
}

