package main

// preDelivery runs the shadow variants a profile asks for on the committed pre-block state.
func (s *Sim) preDelivery(m *txMeta) {
	if len(s.Prof.Shadows) == 0 {
		return
	}
	m.Shadow = nil
	for _, p := range m.Pkts {
		m.Shadow = append(m.Shadow, s.runShadows(p))
	}
}

func (s *Sim) runShadows(p *Pkt) *shadowResult { return nil }

func (s *Sim) checkShadow(m *txMeta, p *Pkt, in *PktInfo, mo *MsgObs, ack AckInfo, sh *shadowResult) {}

func (s *Sim) checkpoint(op Op) {}
