package main

// Mode-B checks: C03 (enumerated single and pairwise downstream failures), C05 (recorded
// bridge requests), C06 (action order with a denomination-changing action), plus the
// two-entry statistics case for C12. Each run: one fresh interposed world, one drawn
// scenario, everything executed on throw-away branches of the committed state under IBC
// core's cache-and-discard rule; a sample is also delivered for real through IBC core.

import (
	"encoding/base64"
	"encoding/json"
	"fmt"
	"math"
	"math/big"
	"sort"
	"strings"

	"cosmossdk.io/collections"
	errorsmod "cosmossdk.io/errors"
	sdkmath "cosmossdk.io/math"
	warptypes "github.com/bcp-innovations/hyperlane-cosmos/x/warp/types"
	cctptypes "github.com/circlefin/noble-cctp/x/cctp/types"
	sdk "github.com/cosmos/cosmos-sdk/types"
	sdkerrors "github.com/cosmos/cosmos-sdk/types/errors"
	banktypes "github.com/cosmos/cosmos-sdk/x/bank/types"

	dispatchertypes "github.com/noble-assets/orbiter/v2/types/component/dispatcher"
	executortypes "github.com/noble-assets/orbiter/v2/types/component/executor"
	forwardertypes "github.com/noble-assets/orbiter/v2/types/component/forwarder"
	"github.com/noble-assets/orbiter/v2/types/core"
)

type Scenario struct {
	Pair   int               `json:"pair"`
	Denom  string            `json:"denom"`
	Amount string            `json:"amount"`
	Memo   string            `json:"memo"`
	Dust   map[string]string `json:"dust,omitempty"`
	Limit  uint64            `json:"limit"`
	Desc   string            `json:"desc"`
	Fail   map[int]int       `json:"fail,omitempty"` // for replay: the failing plan
	Real   bool              `json:"real,omitempty"` // delivered through IBC core
	Kind   string            `json:"kind,omitempty"`
	Repl   *replMsg          `json:"replace,omitempty"`
	SatStats bool            `json:"saturated_stats,omitempty"` // the dispatch counters of the pair's routes sit at 2^64-1, as a validated genesis may hold them
}

type replMsg struct {
	Orig, Att, Caller, Mint string // base64
}

func newModeBSim(prof *Profile) *Sim {
	env := newEnv()
	_ = env
	var sp *Sim
	s := newSimWith(prof, func(n *Node) {
		n.modeB = installModeB(n)
		if sp != nil {
			sp.ModeB = n.modeB // a restarted node gets new wrappers: the plan in use is theirs
		}
	})
	sp = s
	s.ModeB = s.N.modeB
	return s
}

func (s *Sim) scenarioPacket(sc *Scenario) *Pkt {
	sender := s.Env.Remote[sc.Pair][0].Addr.String()
	d := map[string]string{"denom": "transfer/" + chanB(sc.Pair) + "/" + sc.Denom, "amount": sc.Amount, "sender": sender, "receiver": s.Env.Orbiter.String(), "memo": sc.Memo}
	bz, _ := json.Marshal(d)
	return &Pkt{Origin: -7, Seq: 424242, SrcChan: chanB(sc.Pair), DstChan: chanA(sc.Pair), Data: bz, TOTime: s.farTimeout()}
}

func (s *Sim) scenarioEdit(sc *Scenario) shadowEdit {
	return func(ctx sdk.Context) error {
		if sc.SatStats {
			// a state reached through genesis: every counter of this source channel is at its maximum, so the
			// statistics step of the transfer fails (the module logs that and goes on)
			g := s.N.App.OrbiterKeeper.ExportGenesis(ctx)
			src := core.CrossChainID{ProtocolId: core.PROTOCOL_IBC, CounterpartyId: chanA(sc.Pair)}
			var kept []dispatchertypes.DispatchCountEntry
			for _, c := range g.DispatcherGenesis.DispatchedCounts {
				if c.SourceId.CounterpartyId != src.CounterpartyId {
					kept = append(kept, c)
				}
			}
			add := func(p core.ProtocolID, cp string) {
				s, d := src, core.CrossChainID{ProtocolId: p, CounterpartyId: cp}
				kept = append(kept, dispatchertypes.DispatchCountEntry{SourceId: &s, DestinationId: &d, Count: math.MaxUint64})
			}
			for _, d := range CCTPDomains {
				add(core.PROTOCOL_CCTP, fmt.Sprint(d))
			}
			for _, d := range HypDomains {
				add(core.PROTOCOL_HYPERLANE, fmt.Sprint(d))
			}
			add(core.PROTOCOL_INTERNAL, "noble")
			g.DispatcherGenesis.DispatchedCounts = kept
			if err := g.Validate(); err != nil {
				panic(harnessErr("genesis with saturated counters does not validate: %v", err))
			}
			s.wipeOrbiterStore(ctx)
			s.N.App.OrbiterKeeper.InitGenesis(ctx, *g)
		}
		for _, d := range sortedKeys(sc.Dust) {
			amt, _ := sdkmath.NewIntFromString(sc.Dust[d])
			donor := s.Env.Noble[1].Addr
			have := s.N.App.BankKeeper.GetBalance(ctx, donor, d).Amount
			s.setBalance(ctx, donor, d, have.Sub(amt))
			s.setBalance(ctx, s.Env.Orbiter, d, s.N.App.BankKeeper.GetBalance(ctx, s.Env.Orbiter, d).Amount.Add(amt))
		}
		return nil
	}
}

type bExec struct {
	V     *variantResult
	Calls []CallRec
	Fired []int
}

func (s *Sim) execScenario(sc *Scenario, fail map[int]int) *bExec {
	return s.execScenarioWith(sc, fail, nil)
}

// execScenarioWith: extra is applied to the branch after the scenario's own state edit (e.g. a pause by the authority).
func (s *Sim) execScenarioWith(sc *Scenario, fail map[int]int, extra shadowEdit) *bExec {
	b := s.ModeB
	b.Reset(fail)
	pkt := s.scenarioPacket(sc)
	edit := s.scenarioEdit(sc)
	if extra != nil {
		base := edit
		edit = func(ctx sdk.Context) error {
			if base != nil {
				if err := base(ctx); err != nil {
					return err
				}
			}
			store := b.Plan.Store // the set-up is not part of the delivery: not recorded, never faulted
			b.Plan.Store = false
			defer func() { b.Plan.Store = store }()
			return extra(ctx)
		}
	}
	v := s.runVariant("modeb", edit, false, s.recvCB(s.stackFull(), pkt.packet(), s.Env.Relayers[0].Addr))
	out := &bExec{V: v, Calls: append([]CallRec(nil), b.Plan.Calls...), Fired: append([]int(nil), b.Plan.Fired...)}
	b.Reset(nil)
	return out
}

func siteList(cs []CallRec) []string {
	var out []string
	for _, c := range cs {
		out = append(out, c.Site)
	}
	return out
}

// occurrence gives "site#k" for call index i (k-th call at that site).
func occurrence(cs []CallRec, i int) string {
	k := 0
	for j := 0; j <= i && j < len(cs); j++ {
		if cs[j].Site == cs[i].Site {
			k++
		}
	}
	return fmt.Sprintf("%s#%d", cs[i].Site, k)
}

// drawScenario: a known-good transfer (route x fee shape x dust x passthrough).
func drawScenario(s *Sim, r *Rng) *Scenario {
	g := newGen(r, s.Prof)
	g.noIGP = true
	g.routeW, g.feeW, g.scaleW = []int{1, 1, 1}, []int{2, 3, 3, 2, 1}, []int{4, 1, 1, 0}
	sc := &Scenario{Pair: r.Intn(NumPairs), Denom: DenomUSDC, Dust: map[string]string{}}
	if r.Intn(4) == 0 {
		sc.Denom = DenomOther
	}
	p := &MPayload{}
	g.genRoute(s, p, sc.Denom)
	A := g.genAmount(sc.Denom, nil)
	if A.Cmp(big.NewInt(2000)) < 0 || A.Cmp(big.NewInt(100_000_000_000)) > 0 {
		A = big.NewInt(int64(2000 + r.Intn(1000000))) // stay below the CCTP per-message burn limit
	}
	sc.Amount = A.String()
	p.HasFee, p.Fees = g.genFees(s, A)
	// fee recipients: plain accounts only (the scenario must succeed when nothing is injected)
	for i := range p.Fees {
		p.Fees[i].Recipient = s.Env.FeeRcpt[r.Intn(NumFeeRcpt)].Addr.String()
	}
	if r.Intn(3) == 0 && len(p.Fees) >= 2 {
		p.Fees[1].Recipient = p.Fees[0].Recipient // repeated recipient
	}
	if r.Intn(2) == 0 {
		sc.Dust[sc.Denom] = fmt.Sprintf("%d", 1+r.Intn(5000))
	}
	if r.Intn(4) == 0 {
		sc.Dust[DenomStake] = "77"
	}
	if r.Intn(3) == 0 {
		sc.Limit = 64
		p.Passthrough, p.PTNull = r.Bytes(1+r.Intn(60)), false
	}
	sc.Memo = p.Canonical()
	sc.SatStats = r.Intn(6) == 0
	sc.Desc = fmt.Sprintf("route=%s fees=%d dust=%v passthrough=%d saturated-counters=%v", p.Proto, len(p.Fees), len(sc.Dust) > 0, len(p.Passthrough), sc.SatStats)
	return sc
}

func (s *Sim) applyLimit(lim uint64) {
	if lim == s.Model.Limit {
		return
	}
	s.adminNow(Op{Msg: "UpdateParams", N: lim})
}

// ---------------- C03 ----------------

func specialC03(prof *Profile, seed uint64) *RunResult {
	return guardSpecial(seed, func(res *RunResult) *Sim {
		s := newModeBSim(prof)
		r := NewRng(seed)
		sc := drawScenario(s, r)
		res.Extra = sc
		s.runC03Scenario(sc, NewRng(scenarioSeed(sc)))
		return s
	})
}

func replayC03(prof *Profile, rf *ReplayFile) *RunResult {
	return guardSpecial(rf.Seed, func(res *RunResult) *Sim {
		s := newModeBSim(prof)
		var sc Scenario
		bz, _ := json.Marshal(rf.Extra)
		if err := json.Unmarshal(bz, &sc); err != nil {
			panic(harnessErr("bad scenario in replay file: %v", err))
		}
		s.runC03Scenario(&sc, NewRng(scenarioSeed(&sc)))
		return s
	})
}

// scenarioSeed: the choices made while a scenario is checked (which pairs, which fault is delivered for real)
// are a function of the scenario alone, so that a replay file reproduces them exactly.
func scenarioSeed(sc *Scenario) uint64 {
	h := uint64(1469598103934665603)
	for _, x := range []string{sc.Memo, sc.Amount, sc.Denom, fmt.Sprint(sc.Pair, sc.Limit, sc.SatStats)} {
		for i := 0; i < len(x); i++ {
			h ^= uint64(x[i])
			h *= 1099511628211
		}
	}
	return h
}

func (s *Sim) runC03Scenario(sc *Scenario, r *Rng) {
	s.applyLimit(sc.Limit)
	dry := s.execScenario(sc, nil)
	s.logf("C03 scenario %s: dry run success=%v calls=%v", sc.Desc, dry.V.Success, siteList(dry.Calls))
	if dry.V.Panic != "" {
		s.violate("C14", "U1-no-panic", "modeb: "+oneLine(dry.V.Panic), dry.V.Panic)
		return
	}
	if !dry.V.Success {
		panic(harnessErr("mode-B dry run of a known-good scenario was refused: %s (%s)", dry.V.Ack, sc.Desc))
	}
	in := s.classify(s.scenarioPacket(sc))
	route := in.Payload.Proto
	// success => everything completed: exactly one bridge request, statistics moved, orbiter holds nothing of the coin
	s.Stats.Count("rule:C03.success-complete")
	nb := 0
	for _, c := range dry.Calls {
		switch c.Site {
		case "cctp.DepositForBurn", "cctp.DepositForBurnWithCaller", "hyperlane.RemoteTransfer", "internal.Send":
			nb++
		}
	}
	if nb != 1 {
		s.violate("C03", "success-only-after-all-movements", "bridge-requests="+fmt.Sprint(nb), fmt.Sprintf("scenario %s: success ack with %d bridge requests", sc.Desc, nb))
	}
	// the requests were made on state that was kept: after a success nothing of the transferred denomination is
	// left on the orbiter account (whatever was there before has gone to the dust collector)
	for _, ln := range dry.V.Deltas {
		if strings.HasPrefix(ln, s.Env.Orbiter.String()+"/"+sc.Denom+": ") && !strings.HasSuffix(ln, " -> 0") {
			s.violate("C03", "success-only-after-all-movements", "success-ack-with-funds-left-behind (scenario)", fmt.Sprintf("scenario %s: %s", sc.Desc, ln))
		}
	}
	if dry.V.OrbStore == digestStore(s.N.Ctx().KVStore(s.N.App.GetKey("orbiter"))) {
		s.violate("C03", "success-only-after-all-movements", "statistics-not-updated", fmt.Sprintf("scenario %s", sc.Desc))
	}
	// every single call failed, before and after its side effects
	var idxs []int
	for i, c := range dry.Calls {
		if c.Site != "bank.GetBalance" {
			idxs = append(idxs, i)
		}
	}
	class := 0 // error class carried by the injected failure (see injectedErrClasses)
	check := func(fail map[int]int, label string) {
		errClass = class
		ex := s.execScenario(sc, fail)
		s.Stats.Count("injected_executions")
		s.Stats.Count("rule:C03.fault-implies-error-ack")
		for _, i := range ex.Fired {
			s.Stats.Fault("injected_error:" + ex.Calls[i].Site)
		}
		if ex.V.Panic != "" && !strings.HasPrefix(ex.V.Panic, "injected downstream panic") {
			s.violate("C14", "U1-no-panic", "modeb: "+oneLine(ex.V.Panic), ex.V.Panic)
			return
		}
		if len(ex.Fired) == 0 {
			panic(harnessErr("planned fault %s did not fire (calls %v)", label, siteList(ex.Calls)))
		}
		first := ex.Fired[0]
		mode := map[int]string{faultBefore: "before", faultAfter: "after", faultPanic: "panic"}[fail[first]]
		if class != 0 {
			mode += "/" + injectedErrNames[class]
			s.Stats.Fault("injected_error_class:" + injectedErrNames[class])
		}
		fp := fmt.Sprintf("swallowed-failure site=%s mode=%s route=%s", occurrence(ex.Calls, first), mode, route)
		s.Stats.States[fmt.Sprintf("%s|%s|%s|%d", route, occurrence(ex.Calls, first), mode, len(fail))] = true
		if ex.V.Success {
			s.violate("C03", "failure-implies-error-ack", fp, fmt.Sprintf("scenario %s: %s failed (%s) but the acknowledgement is a success; effects kept: %v", sc.Desc, label, mode, ex.V.Deltas))
			// C04 says the same of the fees: every entry is credited exactly, or the whole transfer is refused with nothing
			// paid - an acknowledged transfer whose credits differ from the fault-free ones paid some entry wrongly
			if in.Payload.HasFee && strings.Join(ex.V.Deltas, "|") != strings.Join(dry.V.Deltas, "|") {
				s.Stats.Count("rule:C04.exact-or-refused-under-fault")
				s.violate("C04", "exact-fee-credits", fmt.Sprintf("credits-differ-after-swallowed-failure site=%s mode=%s", occurrence(ex.Calls, first), mode), fmt.Sprintf("scenario %s: %s failed (%s), success acknowledged, credits %v instead of %v", sc.Desc, label, mode, ex.V.Deltas, dry.V.Deltas))
			}
			sc.Fail = fail
		} else if len(ex.V.Deltas) != 0 {
			s.violate("C03", "U2-error-ack-no-effect", "effects-after-error-ack", fmt.Sprintf("scenario %s: %v", sc.Desc, ex.V.Deltas))
		}
	}
	for _, i := range idxs {
		for _, mode := range []int{faultBefore, faultAfter, faultPanic} {
			check(map[int]int{i: mode}, occurrence(dry.Calls, i))
		}
		// the same failure carrying each registered error class: nothing may be retried, repaired or waved through
		// because of the kind of error a downstream module returned
		for class = 1; class < len(injectedErrClasses); class++ {
			check(map[int]int{i: faultBefore}, occurrence(dry.Calls, i))
			if class == 1+i%(len(injectedErrClasses)-1) {
				check(map[int]int{i: faultAfter}, occurrence(dry.Calls, i))
			}
		}
		class = 0
	}
	// every pair
	pairs := 0
	for a := 0; a < len(idxs); a++ {
		for b := a + 1; b < len(idxs); b++ {
			m1, m2 := faultBefore, faultAfter
			if (a+b)%2 == 0 {
				m1, m2 = faultAfter, faultBefore
			}
			check(map[int]int{idxs[a]: m1, idxs[b]: m2}, occurrence(dry.Calls, idxs[a])+"+"+occurrence(dry.Calls, idxs[b]))
			pairs++
		}
	}
	s.Stats.Count("scenarios")
	s.Stats.Counts["pairs_enumerated"] += pairs
	s.storeFaultPass(sc, dry, route)
	s.pausedFailClosedPass(sc, route)
	// one drawn fault delivered for real through IBC core: error ack committed, nothing else changed, refund on ack relay
	if len(idxs) > 0 && len(s.Prof.Shadows) == 0 { // (profiles with twin worlds compare a real delivery with its fault-free twin)
		i := idxs[r.Intn(len(idxs))]
		mode := []int{faultBefore, faultAfter}[r.Intn(2)]
		s.realFaultDelivery(sc, map[int]int{i: mode}, occurrence(dry.Calls, i), route)
	}
}

func isBridgeSite(site string) bool {
	switch site {
	case "cctp.DepositForBurn", "cctp.DepositForBurnWithCaller", "hyperlane.RemoteTransfer", "internal.Send":
		return true
	}
	return false
}

// storeFaultPass: the orbiter's own store as a fault seam (a failing disk seen through the error results of the
// KVStore interface). Every store call of the scenario's delivery fails once, in every mode. A failure before the
// bridge request has completed must end in an error acknowledgement with no effect. After the bridge request only the
// statistics are left, which the dispatcher updates on a best-effort basis (a failure there is logged): the
// acknowledgement may stay a success, but then the fund movements must be exactly those of the fault-free delivery -
// a failing statistics write never undoes, repeats or redirects a movement.
func (s *Sim) storeFaultPass(sc *Scenario, dry *bExec, route string) {
	s.ModeB.Plan.Store = true
	defer func() { s.ModeB.Plan.Store = false }()
	base := s.execScenario(sc, nil)
	if base.V.Panic != "" || !base.V.Success || strings.Join(base.V.Deltas, "|") != strings.Join(dry.V.Deltas, "|") {
		panic(harnessErr("recording store calls changed the fault-free delivery: %v / %v", base.V.Deltas, dry.V.Deltas))
	}
	nStore := 0
	ptLen := len(s.classify(s.scenarioPacket(sc)).Payload.Passthrough)
	for i, c := range base.Calls {
		if !strings.HasPrefix(c.Site, "store.") {
			continue
		}
		nStore++
		modes := []int{faultBefore, faultPanic}
		if strings.HasPrefix(c.Site, "store.Set") || strings.HasPrefix(c.Site, "store.Delete") {
			modes = []int{faultBefore, faultAfter, faultPanic}
		}
		for _, mode := range modes {
			ex := s.execScenario(sc, map[int]int{i: mode})
			s.Stats.Count("injected_executions")
			s.Stats.Count("rule:C03.store-fault")
			if len(ex.Fired) == 0 {
				panic(harnessErr("planned store fault %s did not fire (calls %v)", occurrence(base.Calls, i), siteList(ex.Calls)))
			}
			if mode == faultPanic {
				s.Stats.Fault("injected_panic:store." + storeOp(c.Site))
			} else {
				s.Stats.Fault("injected_error:store." + storeOp(c.Site))
			}
			if ex.V.Panic != "" {
				if !strings.HasPrefix(ex.V.Panic, "injected downstream panic") {
					s.violate("C14", "U1-no-panic", "modeb: "+oneLine(ex.V.Panic), ex.V.Panic)
				}
				continue
			}
			first := ex.Fired[0]
			afterBridge := false
			for j := 0; j < first; j++ {
				if isBridgeSite(ex.Calls[j].Site) {
					afterBridge = true
				}
			}
			mname := map[int]string{faultBefore: "before", faultAfter: "after", faultPanic: "panic"}[mode]
			s.Stats.States[fmt.Sprintf("%s|%s|%s|store", route, occurrence(ex.Calls, first), mname)] = true
			// The one read the adapter tolerates by design: when the parameters cannot be read the passthrough limit
			// is assumed to be zero (the strictest value) and the failure is logged. A delivery without passthrough
			// payload may therefore still succeed - identically to the fault-free one - and one with a passthrough
			// payload must be refused. The key prefix is the code's own constant, not a copy of it.
			paramsRead := strings.HasPrefix(ex.Calls[first].Site, "store.Get@") && ex.Calls[first].Site == storeSite("Get", core.AdapterParamsPrefix.Bytes())
			switch {
			case ex.V.Success && paramsRead && !afterBridge:
				s.Stats.Count("probe:parameter_read_failed_limit_assumed_zero")
				if ptLen > 0 {
					s.violate("C18", "limit-enforced", "parameters-unreadable-passthrough-accepted", fmt.Sprintf("scenario %s: the parameters could not be read (%s) and a passthrough payload of %d bytes was accepted", sc.Desc, mname, ptLen))
				} else if strings.Join(ex.V.Deltas, "|") != strings.Join(dry.V.Deltas, "|") {
					s.violate("C03", "success-only-after-all-movements", "parameter-read-failure-changed-fund-movements route="+route, fmt.Sprintf("scenario %s: %v instead of %v", sc.Desc, ex.V.Deltas, dry.V.Deltas))
				}
			case ex.V.Success && !afterBridge:
				s.violate("C03", "failure-implies-error-ack", fmt.Sprintf("swallowed-store-failure site=%s mode=%s route=%s", occurrence(ex.Calls, first), mname, route),
					fmt.Sprintf("scenario %s: store call %s failed (%s) before the bridge request but the acknowledgement is a success; effects kept: %v", sc.Desc, occurrence(ex.Calls, first), mname, ex.V.Deltas))
				sc.Fail = map[int]int{i: mode}
			case ex.V.Success:
				s.Stats.Count("probe:statistics_write_failed_transfer_kept")
				if strings.Join(ex.V.Deltas, "|") != strings.Join(dry.V.Deltas, "|") {
					s.violate("C03", "success-only-after-all-movements", fmt.Sprintf("statistics-failure-changed-fund-movements site=%s route=%s", occurrence(ex.Calls, first), route),
						fmt.Sprintf("scenario %s: store call %s failed (%s) after the bridge request, success acknowledged, but the ledger effects %v differ from the fault-free %v", sc.Desc, occurrence(ex.Calls, first), mname, ex.V.Deltas, dry.V.Deltas))
				}
			case len(ex.V.Deltas) != 0:
				s.violate("C03", "U2-error-ack-no-effect", "effects-after-error-ack", fmt.Sprintf("scenario %s (store fault %s): %v", sc.Desc, occurrence(ex.Calls, first), ex.V.Deltas))
			}
		}
	}
	s.Stats.Counts["store_calls_enumerated"] += nStore
}

// pausedFailClosedPass: a pause holds under store faults. The scenario's transfer is delivered on a state where its
// protocol, its (protocol, counterparty) pair or its fee action was paused by the authority; the fault-free delivery
// must be refused. Then every store call of that delivery fails once per error class (plain, the registered SDK classes
// and "not found", which a failing store may well return for Has/iterators) and once by panicking: whatever the store
// answers, the paused transfer is never executed - the outcome is an error acknowledgement or an aborted transaction,
// never a success, and nothing is paid.
func (s *Sim) pausedFailClosedPass(sc *Scenario, route string) {
	in := s.classify(s.scenarioPacket(sc))
	pl := in.Payload
	auth := s.Env.Authority.Addr.String()
	type variant struct {
		prop, name string
		msg        sdk.Msg
	}
	vs := []variant{
		{"C08", "protocol", &forwardertypes.MsgPauseProtocol{Signer: auth, ProtocolId: pl.Proto}},
		{"C08", "pair", &forwardertypes.MsgPauseCrossChains{Signer: auth, ProtocolId: pl.Proto, CounterpartyIds: []string{pl.Counterparty()}}},
	}
	if pl.HasFee {
		vs = append(vs, variant{"C09", "action", &executortypes.MsgPauseAction{Signer: auth, ActionId: "ACTION_FEE"}})
	}
	classes := append(append([]error(nil), injectedErrClasses...), errorsmod.Wrap(collections.ErrNotFound, "injected store failure"), errorsmod.Wrap(sdkerrors.ErrNotFound, "injected store failure"))
	names := append(append([]string(nil), injectedErrNames...), "collections-not-found", "sdk-not-found")
	s.ModeB.Plan.Store = true
	defer func() { s.ModeB.Plan.Store = false; storeErrOverride = nil }()
	for _, v := range vs {
		v := v
		extra := func(ctx sdk.Context) error { return s.adminOnBranch(ctx, v.msg) }
		base := s.execScenarioWith(sc, nil, extra)
		if base.V.SetupErr != "" {
			panic(harnessErr("pausing on a branch failed: %s", base.V.SetupErr))
		}
		s.Stats.Count("rule:" + v.prop + ".paused-refused-in-scenario")
		if base.V.Panic != "" {
			s.violate("C14", "U1-no-panic", "modeb: "+oneLine(base.V.Panic), base.V.Panic)
			continue
		}
		if base.V.Success {
			s.violate(v.prop, "enforcement", "accepted-while-paused (scenario) what="+v.name, fmt.Sprintf("scenario %s: delivered with its %s paused and accepted", sc.Desc, v.name))
			continue
		}
		for i, c := range base.Calls {
			if !strings.HasPrefix(c.Site, "store.") {
				continue
			}
			for k := 0; k <= len(classes); k++ {
				mode, cname := faultBefore, "panic"
				if k == len(classes) {
					mode = faultPanic
				} else {
					cname = names[k]
					if strings.HasPrefix(c.Site, "store.Get@") && strings.Contains(cname, "not-found") {
						continue // "not found" from a Get is an answer (the key is absent), i.e. wrong data, not a failure
					}
					storeErrOverride = classes[k]
				}
				ex := s.execScenarioWith(sc, map[int]int{i: mode}, extra)
				storeErrOverride = nil
				s.Stats.Count("injected_executions")
				s.Stats.Count("rule:" + v.prop + ".paused-stays-refused-under-store-fault")
				s.Stats.Fault("injected_store_fault_while_paused:" + cname)
				if len(ex.Fired) == 0 {
					panic(harnessErr("planned store fault %s did not fire while paused", occurrence(base.Calls, i)))
				}
				s.Stats.States[fmt.Sprintf("paused|%s|%s|%s|%s", route, v.name, occurrence(ex.Calls, ex.Fired[0]), cname)] = true
				if ex.V.Panic != "" {
					if !strings.HasPrefix(ex.V.Panic, "injected downstream panic") {
						s.violate("C14", "U1-no-panic", "modeb: "+oneLine(ex.V.Panic), ex.V.Panic)
					}
					continue
				}
				if ex.V.Success {
					s.violate(v.prop, "enforcement", fmt.Sprintf("paused-%s-executed-under-store-fault site=%s class=%s", v.name, storeOp(c.Site), cname),
						fmt.Sprintf("scenario %s: the %s of the transfer is paused; store call %s failed (%s) during the delivery and the transfer was executed: %v", sc.Desc, v.name, occurrence(ex.Calls, ex.Fired[0]), cname, ex.V.Deltas))
				} else if len(ex.V.Deltas) != 0 {
					s.violate("C03", "U2-error-ack-no-effect", "effects-after-error-ack", fmt.Sprintf("scenario %s (paused %s, store fault %s): %v", sc.Desc, v.name, occurrence(ex.Calls, ex.Fired[0]), ex.V.Deltas))
				}
			}
		}
	}
}

func storeOp(site string) string {
	x := strings.TrimPrefix(site, "store.")
	if i := strings.Index(x, "@"); i >= 0 {
		return x[:i]
	}
	return x
}

// realFaultDelivery sends the scenario's transfer with a real MsgTransfer and relays it through
// IBC core while the plan is active.
func (s *Sim) realFaultDelivery(sc *Scenario, fail map[int]int, label, route string) {
	for _, d := range sortedKeys(sc.Dust) {
		s.Exec(Op{ID: 9001, K: "dust", Denom: d, Amt: sc.Dust[d], Signer: "noble1"})
	}
	s.Exec(Op{ID: 9002, K: "send", Pair: sc.Pair, User: 0, Denom: sc.Denom, Amt: sc.Amount, Recv: s.Env.Orbiter.String(), Memo: sc.Memo, Class: "canon"})
	s.Exec(Op{ID: 9003, K: "block", Dt: 5})
	s.Exec(Op{ID: 9004, K: "deliver", Ref: 9002})
	s.ModeB.Reset(fail)
	s.Exec(Op{ID: 9005, K: "block", Dt: 5})
	fired := len(s.ModeB.Plan.Fired)
	s.ModeB.Reset(nil)
	p := s.byOrigin[9002]
	s.Stats.Count("rule:C03.real-delivery")
	if p == nil || p.State != PktReceived {
		panic(harnessErr("real fault delivery: packet not received"))
	}
	if fired == 0 {
		panic(harnessErr("real fault delivery: planned fault %s did not fire", label))
	}
	s.Stats.Fault("injected_error_real_delivery")
	if decodeAck(p.Ack).Success {
		s.violate("C03", "failure-implies-error-ack", fmt.Sprintf("swallowed-failure (real delivery) site=%s route=%s", label, route), fmt.Sprintf("scenario %s", sc.Desc))
	}
	s.Exec(Op{ID: 9006, K: "ack", Ref: 9002})
	s.Exec(Op{ID: 9007, K: "block", Dt: 5})
}

// guardSpecial runs f, converting harness panics and collecting the result.
func guardSpecial(seed uint64, f func(res *RunResult) *Sim) (res *RunResult) {
	res = &RunResult{Seed: seed}
	var s *Sim
	defer func() {
		if r := recover(); r != nil {
			if he, ok := r.(harnessError); ok {
				res.HarnessErr = he.msg
			} else {
				res.HarnessErr = fmt.Sprintf("panic in harness: %v", r)
			}
		}
		if s != nil {
			res.Viol, res.Stats, res.HashLog, res.Log = s.Viol, s.Stats, s.HashLog, s.Log
		}
		if res.Stats == nil {
			res.Stats = newRunStats()
		}
	}()
	s = f(res)
	return res
}

// ---------------- C05 (recorded requests) ----------------

func b64s(b []byte) string { return base64.StdEncoding.EncodeToString(b) }

func specialC05(prof *Profile, seed uint64) *RunResult {
	return guardSpecial(seed, func(res *RunResult) *Sim {
		s := newModeBSim(prof)
		r := NewRng(seed)
		var scs []*Scenario
		for i := 0; i < 12; i++ {
			scs = append(scs, drawC05Scenario(s, r))
		}
		res.Extra = scs
		for _, sc := range scs {
			s.runC05Scenario(sc)
		}
		return s
	})
}

func replayC05(prof *Profile, rf *ReplayFile) *RunResult {
	return guardSpecial(rf.Seed, func(res *RunResult) *Sim {
		s := newModeBSim(prof)
		var scs []*Scenario
		bz, _ := json.Marshal(rf.Extra)
		if err := json.Unmarshal(bz, &scs); err != nil {
			panic(harnessErr("bad scenario list in replay file: %v", err))
		}
		for _, sc := range scs {
			s.runC05Scenario(sc)
		}
		return s
	})
}

func drawC05Scenario(s *Sim, r *Rng) *Scenario {
	sc := &Scenario{Pair: r.Intn(NumPairs), Denom: DenomUSDC, Dust: map[string]string{}, Limit: 64}
	if r.Intn(8) == 0 {
		sc.Kind = "replace"
		sc.Repl = &replMsg{Orig: b64s(r.Bytes(1 + r.Intn(300))), Att: b64s(r.Bytes(r.Intn(130))), Caller: b64s(r.Bytes(32)), Mint: b64s(r.Bytes(32))}
		if r.Intn(3) == 0 {
			sc.Repl.Caller = b64s(nil)
		}
		sc.Desc = "authority deposit replacement"
		return sc
	}
	g := newGen(r, s.Prof)
	g.feeW, g.scaleW = []int{3, 3, 2, 1, 1}, []int{4, 2, 1, 0}
	p := &MPayload{}
	A := g.genAmount(sc.Denom, nil)
	if A.Cmp(big.NewInt(100)) < 0 {
		A = big.NewInt(int64(100 + r.Intn(100000)))
	}
	sc.Amount = A.String()
	switch r.Intn(3) {
	case 0:
		p.Proto = "PROTOCOL_CCTP"
		p.Domain = []uint32{0, 1, 2, 3, 5, 7, 99, 4294967295}[r.Intn(8)]
		p.MintRecipient = r.Bytes([]int{32, 32, 32, 20, 1, 64}[r.Intn(6)])
		if allZero(p.MintRecipient) {
			p.MintRecipient[0] = 1
		}
		if r.Intn(2) == 0 {
			p.DestCaller = r.Bytes([]int{32, 32, 20, 1}[r.Intn(4)])
		}
		p.PTNull = true
	case 1:
		p.Proto = "PROTOCOL_HYPERLANE"
		p.Token = s.Env.HypTokens[DenomUSDC].Bytes()
		if r.Intn(6) == 0 {
			p.Token = r.Bytes(32) // unknown token: the query is made, nothing is sent
		}
		p.Domain = []uint32{1, 10, 42161, 8453, 0, 4294967295}[r.Intn(6)]
		p.Recipient32 = r.Bytes(32)
		if r.Intn(3) == 0 {
			p.HookID = r.Bytes(32)
		}
		if r.Intn(5) == 0 {
			// byte fields of the wrong length cannot be carried by the 32-byte fields of the request: whatever reaches
			// the bridge must still be exactly the payload's bytes, i.e. nothing may reach it
			switch r.Intn(3) {
			case 0:
				p.Recipient32 = r.Bytes([]int{20, 31, 33, 40, 64}[r.Intn(5)])
			case 1:
				p.HookID = r.Bytes([]int{20, 31, 33, 40}[r.Intn(4)])
			default:
				p.Token = append(s.Env.HypTokens[DenomUSDC].Bytes(), r.Bytes(1+r.Intn(8))...)
			}
		}
		if r.Intn(3) == 0 {
			p.HookMeta = "0x" + fmt.Sprintf("%x", r.Bytes(1+r.Intn(20)))
		}
		p.GasLimit = []string{"0", "1", "200000", "18446744073709551616"}[r.Intn(4)]
		p.MaxFeeDenom = []string{DenomUSDC, DenomOther, DenomStake}[r.Intn(3)]
		p.MaxFeeAmt = []string{"0", "1", "1000000"}[r.Intn(3)]
		p.PTNull = true
	default:
		p.Proto = "PROTOCOL_INTERNAL"
		rc := []string{s.Env.Rcpt[r.Intn(NumRecipient)].Addr.String(), strings.ToUpper(s.Env.Rcpt[0].Addr.String()), s.Env.Noble[0].Addr.String(), s.Env.FeeRcpt[1].Addr.String(), s.Env.Dust.String()}
		p.Recipient = rc[r.Intn(len(rc))]
		p.Passthrough = []byte{}
	}
	p.HasFee, p.Fees = g.genFees(s, A)
	for i := range p.Fees {
		p.Fees[i].Recipient = s.Env.FeeRcpt[r.Intn(NumFeeRcpt)].Addr.String()
	}
	if r.Intn(4) == 0 {
		p.Passthrough, p.PTNull = r.Bytes(1+r.Intn(60)), false
	}
	sc.Memo = p.Canonical()
	// mismatched (protocol id, attribute type) combinations and unroutable identifiers: must be refused, nothing sent
	if r.Intn(5) == 0 {
		others := []string{"PROTOCOL_CCTP", "PROTOCOL_HYPERLANE", "PROTOCOL_INTERNAL", "PROTOCOL_IBC", "PROTOCOL_UNSUPPORTED"}
		o := others[r.Intn(len(others))]
		if o != p.Proto {
			sc.Memo = strings.Replace(sc.Memo, `"protocol_id":"`+p.Proto+`"`, `"protocol_id":"`+o+`"`, 1)
			sc.Kind = "mismatch"
		}
	}
	sc.Desc = fmt.Sprintf("%s kind=%s fees=%d", p.Proto, sc.Kind, len(p.Fees))
	return sc
}

func (s *Sim) runC05Scenario(sc *Scenario) {
	e := s.Env
	orb := e.Orbiter.String()
	if sc.Kind == "replace" {
		dec := func(x string) []byte { b, _ := base64.StdEncoding.DecodeString(x); return b }
		msg := &forwardertypes.MsgReplaceDepositForBurn{Signer: e.Authority.Addr.String(), OriginalMessage: dec(sc.Repl.Orig), OriginalAttestation: dec(sc.Repl.Att), NewDestinationCaller: dec(sc.Repl.Caller), NewMintRecipient: dec(sc.Repl.Mint)}
		s.ModeB.Reset(nil)
		_, err := s.ModeB.MsgFwd.ReplaceDepositForBurn(s.N.Branch(), msg)
		calls := append([]CallRec(nil), s.ModeB.Plan.Calls...)
		s.ModeB.Reset(nil)
		s.Stats.Count("rule:C05.replace-request")
		var got *cctptypes.MsgReplaceDepositForBurn
		n := 0
		for _, c := range calls {
			if r, ok := c.Req.(cctptypes.MsgReplaceDepositForBurn); ok {
				rr := r
				got = &rr
				n++
			}
		}
		if n != 1 {
			s.violate("C05", "replace-deposit-request", fmt.Sprintf("requests=%d", n), fmt.Sprintf("authority's MsgReplaceDepositForBurn produced %d CCTP requests (err=%v)", n, err))
			return
		}
		for _, f := range []struct {
			name     string
			got, exp []byte
		}{{"original-message", got.OriginalMessage, msg.OriginalMessage}, {"original-attestation", got.OriginalAttestation, msg.OriginalAttestation}, {"new-destination-caller", got.NewDestinationCaller, msg.NewDestinationCaller}, {"new-mint-recipient", got.NewMintRecipient, msg.NewMintRecipient}} {
			if !bytesEq(f.got, f.exp) {
				s.violate("C05", "replace-deposit-request", "field="+f.name, fmt.Sprintf("CCTP received %x, the message said %x", f.got, f.exp))
			}
		}
		if got.From != orb {
			s.violate("C05", "replace-deposit-request", "field=from", fmt.Sprintf("From=%s, expected the orbiter account", got.From))
		}
		// an impostor must not reach CCTP at all (also C10)
		s.ModeB.Reset(nil)
		imp := *msg
		imp.Signer = e.Impostor.Addr.String()
		_, err2 := s.ModeB.MsgFwd.ReplaceDepositForBurn(s.N.Branch(), &imp)
		if err2 == nil || len(s.ModeB.Plan.Calls) != 0 {
			s.violate("C10", "only-authority", "unauthorised ReplaceDepositForBurn reached CCTP", fmt.Sprintf("err=%v calls=%d", err2, len(s.ModeB.Plan.Calls)))
		}
		s.ModeB.Reset(nil)
		return
	}
	s.applyLimit(sc.Limit)
	ex := s.execScenario(sc, nil)
	pkt := s.scenarioPacket(sc)
	in := s.classify(pkt)
	s.Stats.Count("rule:C05.recorded-request")
	s.logf("C05 scenario %s: success=%v calls=%v", sc.Desc, ex.V.Success, siteList(ex.Calls))
	if ex.V.Panic != "" {
		s.violate("C14", "U1-no-panic", "modeb: "+oneLine(ex.V.Panic), ex.V.Panic)
		return
	}
	var reqs []CallRec
	for _, c := range ex.Calls {
		switch c.Site {
		case "cctp.DepositForBurn", "cctp.DepositForBurnWithCaller", "hyperlane.RemoteTransfer", "internal.Send", "cctp.ReplaceDepositForBurn":
			reqs = append(reqs, c)
		}
	}
	s.Stats.States[fmt.Sprintf("%s|%v|%d", sc.Desc, ex.V.Success, len(reqs))] = true
	bad := func(fp, f string, a ...any) {
		s.violate("C05", "recorded-request", fp, fmt.Sprintf("scenario %s memo=%.300s: ", sc.Desc, sc.Memo)+fmt.Sprintf(f, a...))
	}
	if sc.Kind == "mismatch" {
		if ex.V.Success || len(reqs) != 0 {
			bad("mismatch-not-refused", "protocol id and attribute type disagree (or no controller exists) but success=%v requests=%d", ex.V.Success, len(reqs))
		}
		return
	}
	if in.Payload == nil || !in.Canon {
		panic(harnessErr("C05 scenario is not canonical: %s", sc.Memo))
	}
	pl := in.Payload
	if ex.V.Success && len(reqs) != 1 {
		bad("request-count", "success with %d bridge requests", len(reqs))
	}
	if len(reqs) > 1 {
		bad("request-count", "%d bridge requests", len(reqs))
	}
	if len(reqs) == 0 {
		s.Stats.Count("c05_refused_before_bridge")
		return
	}
	// exactly once also under failure: when the bridge refuses the request - whatever class of error it returns -
	// the transfer is refused; the orbiter never re-issues the request, with the same or with other parameters
	if ex.V.Success && len(reqs) == 1 {
		ri := -1
		for i, c := range ex.Calls {
			if isBridgeSite(c.Site) {
				ri = i
			}
		}
		for k := range injectedErrClasses {
			errClass = k
			fx := s.execScenario(sc, map[int]int{ri: faultBefore})
			s.Stats.Count("rule:C05.no-reissue-after-bridge-failure")
			s.Stats.Fault("injected_error_class:" + injectedErrNames[k])
			if fx.V.Panic != "" {
				s.violate("C14", "U1-no-panic", "modeb: "+oneLine(fx.V.Panic), fx.V.Panic)
				continue
			}
			nreq := 0
			for _, c := range fx.Calls {
				if isBridgeSite(c.Site) {
					nreq++
				}
			}
			if nreq != 1 {
				bad("request-reissued-after-bridge-failure class="+injectedErrNames[k], "the bridge refused the request (%s error) and the orbiter made %d requests in all, the last one %+v", injectedErrNames[k], nreq, fx.Calls[len(fx.Calls)-1].Req)
			} else if fx.V.Success {
				bad("success-although-bridge-refused class="+injectedErrNames[k], "the bridge refused the request (%s error) and the acknowledgement is a success", injectedErrNames[k])
			}
		}
	}
	fo := FeeOutcome{Total: new(big.Int)}
	if pl.HasFee {
		fo = modelFees(in.Amount, pl.Fees)
	}
	wantAmt := new(big.Int).Sub(in.Amount, fo.Total)
	rq := reqs[0]
	wantSite := map[string]string{"PROTOCOL_CCTP": "cctp.DepositForBurn", "PROTOCOL_HYPERLANE": "hyperlane.RemoteTransfer", "PROTOCOL_INTERNAL": "internal.Send"}[pl.Proto]
	if pl.Proto == "PROTOCOL_CCTP" && len(pl.DestCaller) > 0 {
		wantSite = "cctp.DepositForBurnWithCaller"
	}
	if rq.Site != wantSite {
		bad("wrong-seam", "request went to %s, the payload names %s", rq.Site, wantSite)
		return
	}
	switch m := rq.Req.(type) {
	case cctptypes.MsgDepositForBurn:
		if m.From != orb {
			bad("cctp-from", "From=%s", m.From)
		}
		if m.Amount.BigInt().Cmp(wantAmt) != 0 {
			bad("cctp-amount", "amount %s, expected %s", m.Amount, wantAmt)
		}
		if m.DestinationDomain != pl.Domain {
			bad("cctp-domain", "domain %d, payload %d", m.DestinationDomain, pl.Domain)
		}
		if !bytesEq(m.MintRecipient, pl.MintRecipient) {
			bad("cctp-mint-recipient", "mint recipient %x, payload %x", m.MintRecipient, pl.MintRecipient)
		}
		if m.BurnToken != in.Native {
			bad("cctp-burn-token", "burn token %s, expected %s", m.BurnToken, in.Native)
		}
	case cctptypes.MsgDepositForBurnWithCaller:
		if m.From != orb {
			bad("cctp-from", "From=%s", m.From)
		}
		if m.Amount.BigInt().Cmp(wantAmt) != 0 {
			bad("cctp-amount", "amount %s, expected %s", m.Amount, wantAmt)
		}
		if m.DestinationDomain != pl.Domain {
			bad("cctp-domain", "domain %d, payload %d", m.DestinationDomain, pl.Domain)
		}
		if !bytesEq(m.MintRecipient, pl.MintRecipient) {
			bad("cctp-mint-recipient", "mint recipient %x, payload %x", m.MintRecipient, pl.MintRecipient)
		}
		if !bytesEq(m.DestinationCaller, pl.DestCaller) {
			bad("cctp-destination-caller", "destination caller %x, payload %x", m.DestinationCaller, pl.DestCaller)
		}
		if m.BurnToken != in.Native {
			bad("cctp-burn-token", "burn token %s, expected %s", m.BurnToken, in.Native)
		}
	case warptypes.MsgRemoteTransfer:
		if m.Sender != orb {
			bad("hyp-sender", "Sender=%s", m.Sender)
		}
		if m.Amount.BigInt().Cmp(wantAmt) != 0 {
			bad("hyp-amount", "amount %s, expected %s", m.Amount, wantAmt)
		}
		if !bytesEq(m.TokenId.Bytes(), pl.Token) {
			bad("hyp-token", "token %x, payload %x", m.TokenId.Bytes(), pl.Token)
		}
		if m.DestinationDomain != pl.Domain {
			bad("hyp-domain", "domain %d, payload %d", m.DestinationDomain, pl.Domain)
		}
		if !bytesEq(m.Recipient.Bytes(), pl.Recipient32) {
			bad("hyp-recipient", "recipient %x, payload %x", m.Recipient.Bytes(), pl.Recipient32)
		}
		switch {
		case len(pl.HookID) == 0 && m.CustomHookId != nil:
			bad("hyp-custom-hook", "custom hook %x although the payload has none", m.CustomHookId.Bytes())
		case len(pl.HookID) != 0 && (m.CustomHookId == nil || !bytesEq(m.CustomHookId.Bytes(), pl.HookID)):
			bad("hyp-custom-hook", "custom hook differs from payload %x", pl.HookID)
		}
		if m.GasLimit.String() != pl.GasLimit {
			bad("hyp-gas-limit", "gas limit %s, payload %s", m.GasLimit, pl.GasLimit)
		}
		if m.MaxFee.Denom != pl.MaxFeeDenom || m.MaxFee.Amount.String() != pl.MaxFeeAmt {
			bad("hyp-max-fee", "max fee %s, payload %s%s", m.MaxFee, pl.MaxFeeAmt, pl.MaxFeeDenom)
		}
		if m.CustomHookMetadata != pl.HookMeta {
			bad("hyp-hook-metadata", "hook metadata %q, payload %q", m.CustomHookMetadata, pl.HookMeta)
		}
	case banktypes.MsgSend:
		if m.FromAddress != orb {
			bad("internal-from", "FromAddress=%s", m.FromAddress)
		}
		if m.ToAddress != pl.Recipient {
			bad("internal-recipient", "ToAddress=%s, payload %s", m.ToAddress, pl.Recipient)
		}
		if len(m.Amount) != 1 || m.Amount[0].Denom != in.Native || m.Amount[0].Amount.BigInt().Cmp(wantAmt) != 0 {
			bad("internal-amount", "amount %s, expected %s%s", m.Amount, wantAmt, in.Native)
		}
	default:
		panic(harnessErr("unexpected recorded request %T", rq.Req))
	}
}

// ---------------- C06 (action order, denomination-changing action) ----------------

const typeSwap = "/testpb.TestActionAttr"

type c06Scenario struct {
	Scenario
	Actions []string `json:"actions"` // "fee" | "swap" in order
	Prop    string   `json:"prop"`
}

func specialC06(prof *Profile, seed uint64) *RunResult {
	return guardSpecial(seed, func(res *RunResult) *Sim {
		s := newModeBSim(prof)
		r := NewRng(seed)
		var scs []*Scenario
		for i := 0; i < 10; i++ {
			scs = append(scs, drawC06Scenario(s, r))
		}
		// some programs once more, byte for byte, with another amount: each delivery starts from its own amount
		for k := 0; k < 3; k++ {
			c := *scs[r.Intn(10)]
			c.Amount = fmt.Sprintf("%d", 1000+r.Intn(5_000_000))
			c.Desc += " (same memo again, another amount)"
			scs = append(scs, &c)
		}
		res.Extra = scs
		for _, sc := range scs {
			s.runC06Scenario(sc)
		}
		return s
	})
}

func replayC06(prof *Profile, rf *ReplayFile) *RunResult {
	return guardSpecial(rf.Seed, func(res *RunResult) *Sim {
		s := newModeBSim(prof)
		var scs []*Scenario
		bz, _ := json.Marshal(rf.Extra)
		if err := json.Unmarshal(bz, &scs); err != nil {
			panic(harnessErr("bad scenario list in replay file: %v", err))
		}
		for _, sc := range scs {
			s.runC06Scenario(sc)
		}
		return s
	})
}

type mAction struct {
	Kind   string
	Fees   []MFee
	Denom  string
	Num    int64
	Den    int64
}

func actionJSON(a mAction) string {
	if a.Kind == "swap" {
		return fmt.Sprintf(`{"id":"ACTION_SWAP","attributes":{"@type":"%s","whatever":"%s:%d/%d"}}`, typeSwap, a.Denom, a.Num, a.Den)
	}
	p := MPayload{HasFee: true, Fees: a.Fees, Proto: "PROTOCOL_INTERNAL", Recipient: "x", Passthrough: []byte{}}
	c := p.Canonical()
	i := strings.Index(c, `"pre_actions":[`) + len(`"pre_actions":[`)
	j := strings.Index(c, `],"forwarding"`)
	return c[i:j]
}

func drawC06Scenario(s *Sim, r *Rng) *Scenario {
	sc := &Scenario{Pair: r.Intn(NumPairs), Denom: []string{DenomUSDC, DenomOther}[r.Intn(2)], Dust: map[string]string{}, Limit: 64}
	other := map[string]string{DenomUSDC: DenomOther, DenomOther: DenomUSDC}[sc.Denom]
	A := big.NewInt(int64(1000 + r.Intn(5_000_000)))
	sc.Amount = A.String()
	rates := [][2]int64{{3, 2}, {2, 3}, {1, 7}, {7, 1}, {999, 1000}, {1, 1}, {10001, 10000}}
	rt := rates[r.Intn(len(rates))]
	mkFee := func() mAction {
		n := 1 + r.Intn(2)
		var fs []MFee
		for i := 0; i < n; i++ {
			if r.Intn(2) == 0 {
				fs = append(fs, MFee{Recipient: s.Env.FeeRcpt[r.Intn(NumFeeRcpt)].Addr.String(), IsBPS: true, BPS: uint64(1 + r.Intn(900))})
			} else {
				fs = append(fs, MFee{Recipient: s.Env.FeeRcpt[r.Intn(NumFeeRcpt)].Addr.String(), Amount: big.NewInt(int64(1 + r.Intn(300)))})
			}
		}
		return mAction{Kind: "fee", Fees: fs}
	}
	swap := mAction{Kind: "swap", Denom: other, Num: rt[0], Den: rt[1]}
	var acts []mAction
	switch r.Intn(6) {
	case 0:
		acts = []mAction{mkFee()}
	case 1:
		acts = []mAction{swap}
	case 2, 3:
		acts = []mAction{mkFee(), swap}
	case 4:
		acts = []mAction{swap, mkFee()}
	default:
		// repeated identifier: must be refused
		if r.Intn(2) == 0 {
			acts = []mAction{swap, mkFee(), swap}
		} else {
			acts = []mAction{mkFee(), swap, mkFee()}
		}
		sc.Kind = "repeat"
	}
	var parts []string
	for _, a := range acts {
		parts = append(parts, actionJSON(a))
	}
	// route: internal for any final denom; CCTP / Hyperlane when the final denom is uusdc
	finalDenom := sc.Denom
	for _, a := range acts {
		if a.Kind == "swap" {
			finalDenom = a.Denom
		}
	}
	p := &MPayload{}
	g := newGen(r, s.Prof)
	g.noIGP = true
	g.routeW = []int{1, 1, 2}
	g.genRoute(s, p, finalDenom)
	c := p.Canonical()
	sc.Memo = strings.Replace(c, `"pre_actions":[]`, `"pre_actions":[`+strings.Join(parts, ",")+`]`, 1)
	if r.Intn(3) == 0 {
		sc.Dust[sc.Denom] = fmt.Sprintf("%d", 1+r.Intn(999))
	}
	if r.Intn(4) == 0 && finalDenom != sc.Denom {
		sc.Dust[finalDenom] = fmt.Sprintf("%d", 1+r.Intn(999)) // dust in the denomination the swap produces: only the transferred one is swept
	}
	var names []string
	for _, a := range acts {
		names = append(names, a.Kind)
	}
	sc.Desc = fmt.Sprintf("actions=%v rate=%d/%d %s->%s route=%s kind=%s", names, rt[0], rt[1], sc.Denom, finalDenom, p.Proto, sc.Kind)
	bz, _ := json.Marshal(acts)
	sc.Fail = nil
	sc.Kind += "|" + string(bz)
	return sc
}

// modelFold: apply the actions in order on the running coin.
func modelFold(A *big.Int, denom string, acts []mAction) (ok bool, finalDenom string, final *big.Int, sends []string) {
	cur, d := new(big.Int).Set(A), denom
	for _, a := range acts {
		switch a.Kind {
		case "fee":
			fo := modelFees(cur, a.Fees)
			if fo.Refuse {
				return false, "", nil, nil
			}
			for i, f := range a.Fees {
				if fo.Credits[i].Sign() > 0 {
					ad, _ := validNobleAddr(f.Recipient)
					sends = append(sends, fmt.Sprintf("%s %s%s", addrStr(ad), fo.Credits[i], d))
				}
			}
			cur.Sub(cur, fo.Total)
		case "swap":
			out := new(big.Int).Mul(cur, big.NewInt(a.Num))
			out.Quo(out, big.NewInt(a.Den))
			if out.Sign() <= 0 {
				return false, "", nil, nil
			}
			cur, d = out, a.Denom
		}
	}
	return true, d, cur, sends
}

func (s *Sim) runC06Scenario(sc *Scenario) {
	e := s.Env
	orb := e.Orbiter.String()
	i := strings.Index(sc.Kind, "|")
	kind, actsJSON := sc.Kind[:i], sc.Kind[i+1:]
	var acts []mAction
	if err := json.Unmarshal([]byte(actsJSON), &acts); err != nil {
		panic(harnessErr("bad actions in scenario: %v", err))
	}
	s.applyLimit(sc.Limit)
	ex := s.execScenario(sc, nil)
	s.Stats.Count("rule:C06.order")
	s.logf("C06 scenario %s amount=%s: success=%v calls=%v", sc.Desc, sc.Amount, ex.V.Success, siteList(ex.Calls))
	s.Stats.States[fmt.Sprintf("%s|dust=%d|%v", sc.Desc, len(sc.Dust), ex.V.Success)] = true
	if ex.V.Panic != "" {
		s.violate("C14", "U1-no-panic", "modeb: "+oneLine(ex.V.Panic), ex.V.Panic)
		return
	}
	bad := func(prop, rule, fp, f string, a ...any) {
		s.violate(prop, rule, fp, fmt.Sprintf("scenario %s: ", sc.Desc)+fmt.Sprintf(f, a...))
	}
	if kind == "repeat" {
		if ex.V.Success {
			bad("C06", "repeated-action-refused", "repeated-identifier-accepted", "payload repeating an action identifier was accepted")
		}
		return
	}
	A, _ := new(big.Int).SetString(sc.Amount, 10)
	ok, fDenom, fAmt, wantSends := modelFold(A, sc.Denom, acts)
	if !ok {
		if ex.V.Success {
			bad("C06", "order-on-running-amount", "accepted-though-an-action-must-refuse", "")
		}
		return
	}
	// a pre-existing balance in the *final* denom makes the precondition fail legitimately; only the transferred denom is swept
	if !ex.V.Success {
		if _, has := sc.Dust[fDenom]; has && fDenom != sc.Denom {
			return
		}
		bad("C06", "order-on-running-amount", "refused-known-good", "refused: %.300s", ex.V.Ack)
		return
	}
	// fee sends (through the interposed bank) in order, in the denomination current at that point
	conform := func(ex *bExec) (fp, detail string) {
		var gotSends []string
		var reqs []CallRec
		for _, c := range ex.Calls {
			switch c.Site {
			case "bank.SendCoins":
				str, _ := c.Req.(string)
				if strings.HasPrefix(str, orb+"->") && !strings.HasPrefix(str, orb+"->"+e.Dust.String()) {
					gotSends = append(gotSends, strings.TrimPrefix(str, orb+"->"))
				}
			case "cctp.DepositForBurn", "cctp.DepositForBurnWithCaller", "hyperlane.RemoteTransfer", "internal.Send":
				reqs = append(reqs, c)
			}
		}
		if !sameStrs(gotSends, wantSends) {
			return "per-action-credits-differ", fmt.Sprintf("fee sends %v, expected %v", gotSends, wantSends)
		}
		if len(reqs) != 1 {
			return "request-count", fmt.Sprintf("%d bridge requests", len(reqs))
		}
		var gotCoin string
		switch m := reqs[0].Req.(type) {
		case cctptypes.MsgDepositForBurn:
			gotCoin = m.Amount.String() + m.BurnToken
		case cctptypes.MsgDepositForBurnWithCaller:
			gotCoin = m.Amount.String() + m.BurnToken
		case warptypes.MsgRemoteTransfer:
			gotCoin = m.Amount.String() + fDenom // the denomination is implied by the token; checked through the ledger below
		case banktypes.MsgSend:
			gotCoin = m.Amount.String()
		}
		if gotCoin != fAmt.String()+fDenom {
			return "forwarded-coin-differs", fmt.Sprintf("forwarded %s, the last action left %s%s", gotCoin, fAmt, fDenom)
		}
		return "", ""
	}
	if fp, detail := conform(ex); fp != "" {
		rule := "order-on-running-amount"
		if fp != "per-action-credits-differ" {
			rule = "final-coin-forwarded"
		}
		bad("C06", rule, fp, "%s", detail)
		if fp == "request-count" {
			return
		}
	}
	// the same program while one downstream call of the delivery fails or panics: whatever is acknowledged as a
	// success must still be the complete fold - an action is never silently skipped
	if n := len(ex.Calls); n > 0 {
		fr := NewRng(uint64(len(sc.Memo))*1000003 + uint64(A.Uint64()))
		for k := 0; k < 6; k++ {
			idx, mode := fr.Intn(n), []int{faultBefore, faultBefore, faultPanic}[fr.Intn(3)]
			if ex.Calls[idx].Site == "bank.GetBalance" {
				continue
			}
			cls := fr.Intn(len(injectedErrClasses)) // the class of error the failing call returns
			errClass = cls
			fx := s.execScenario(sc, map[int]int{idx: mode})
			if mode == faultBefore {
				s.Stats.Fault("injected_error_class:" + injectedErrNames[cls])
			}
			s.Stats.Count("rule:C06.order-under-fault")
			s.Stats.Fault(map[int]string{faultBefore: "injected_error:", faultPanic: "injected_panic:"}[mode] + ex.Calls[idx].Site)
			if fx.V.Panic != "" || !fx.V.Success || len(fx.Fired) == 0 {
				continue // aborted transaction or error acknowledgement: nothing is kept
			}
			// the failed call itself is recorded although it did not happen: a success after it is already wrong
			bad("C06", "order-on-running-amount", "success-although-a-step-failed site="+ex.Calls[idx].Site+" mode="+map[int]string{faultBefore: "error/" + injectedErrNames[cls], faultPanic: "panic"}[mode], "call #%d (%s) of the delivery failed, the acknowledgement is a success and the calls were %v", idx, ex.Calls[idx].Site, siteList(fx.Calls))
		}
	}
	// statistics: one entry when the denomination is unchanged, two otherwise (C12)
	s.Stats.Count("rule:C12.two-entries")
	br := s.N.Branch()
	s.ModeB.Reset(nil)
	cc, write := br.CacheContext()
	ack := s.stackFull().OnRecvPacket(cc.WithEventManager(sdk.NewEventManager()), s.scenarioPacket(sc).packet(), e.Relayers[0].Addr)
	_ = ack
	// (dust is not applied here: statistics do not depend on it — C11)
	if ack != nil && ack.Success() {
		write()
	}
	s.ModeB.Reset(nil)
	g := s.N.App.OrbiterKeeper.ExportGenesis(br)
	in := s.classify(s.scenarioPacket(sc))
	_ = in
	var got []string
	for _, a := range g.DispatcherGenesis.DispatchedAmounts {
		if a.SourceId.CounterpartyId == chanA(sc.Pair) {
			got = append(got, fmt.Sprintf("%s in=%s out=%s", a.Denom, a.AmountDispatched.Incoming, a.AmountDispatched.Outgoing))
		}
	}
	sort.Strings(got)
	var want []string
	if fDenom == sc.Denom {
		want = []string{fmt.Sprintf("%s in=%s out=%s", sc.Denom, A, fAmt)}
	} else {
		want = []string{fmt.Sprintf("%s in=%s out=0", sc.Denom, A), fmt.Sprintf("%s in=0 out=%s", fDenom, fAmt)}
		s.Stats.Probe("two_statistics_entries_per_transfer")
	}
	sort.Strings(want)
	if ack != nil && ack.Success() && !sameStrs(got, want) {
		bad("C12", "stats-equal-fold", "denomination-change-entries", "statistics %v, expected %v", got, want)
	}
}
