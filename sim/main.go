package main

import (
	"flag"
	"fmt"
	"os"
	"sort"
	"time"
)

func usage() {
	fmt.Println("usage: orbsim check|worker|replay|run [flags]")
	os.Exit(2)
}

func main() {
	if len(os.Args) < 2 {
		usage()
	}
	cmd := os.Args[1]
	fs := flag.NewFlagSet(cmd, flag.ExitOnError)
	var (
		prop    = fs.String("prop", "C12", "property id")
		tier    = fs.String("tier", "quick", "quick|thorough")
		seed    = fs.Uint64("seed", 1, "seed")
		runs    = fs.Int("runs", 1, "number of runs (run)")
		worker  = fs.Int("worker", 0, "worker index")
		out     = fs.String("out", "", "worker report path")
		file    = fs.String("file", "", "replay file")
		verbose = fs.Bool("v", false, "verbose")
	)
	fs.Parse(os.Args[2:])
	if t := os.Getenv("VERIF_TIER"); t != "" && cmd == "check" {
		*tier = t
	}
	switch cmd {
	case "check":
		os.Exit(checkMain(*prop, *tier))
	case "worker":
		os.Exit(workerMain(*prop, *tier, *worker, *seed, *out))
	case "hashlog":
		os.Exit(hashlogMain(*file))
	case "replay":
		os.Exit(replayMain(*file, *verbose))
	case "run":
		os.Exit(runMain(*prop, *seed, *runs, *verbose))
	default:
		usage()
	}
}

// runMain: developer entry point — a batch of runs in one process, printing every violation.
func runMain(prop string, seed uint64, runs int, verbose bool) int {
	prof := profileFor(prop)
	t0 := time.Now()
	tot := newRunStats()
	nv := 0
	keys := map[string]int{}
	for i := 0; i < runs; i++ {
		res := runOne(prof, seed+uint64(i))
		if verbose {
			for _, l := range res.Log {
				fmt.Println(l)
			}
		}
		if res.HarnessErr != "" {
			fmt.Println("HARNESS ERROR seed", res.Seed, res.HarnessErr)
			for _, l := range tail(res.Log, 15) {
				fmt.Println("   ", l)
			}
			return 2
		}
		for _, v := range res.Viol {
			nv++
			if keys[v.Key()] == 0 {
				fmt.Printf("seed %d: %s %s [%s] %.400s\n", res.Seed, v.Prop, v.Rule, v.FP, v.Detail)
			}
			keys[v.Key()]++
		}
		for k, v := range res.Stats.Counts {
			tot.Counts[k] += v
		}
		for k, v := range res.Stats.Faults {
			tot.Faults[k] += v
		}
		for k, v := range res.Stats.Probes {
			tot.Probes[k] += v
		}
		for k := range res.Stats.States {
			tot.States[k] = true
		}
		for k := range res.Stats.Grams {
			tot.Grams[k] = true
		}
		tot.Blocks += res.Stats.Blocks
		tot.Txs += res.Stats.Txs
	}
	fmt.Println("runs", runs, "violations", nv, "time", time.Since(t0), "blocks", tot.Blocks, "txs", tot.Txs, "states", len(tot.States), "grams", len(tot.Grams))
	pm := func(name string, m map[string]int) {
		ks := make([]string, 0, len(m))
		for k := range m {
			ks = append(ks, k)
		}
		sort.Strings(ks)
		fmt.Println(name + ":")
		for _, k := range ks {
			fmt.Printf("  %-70s %d\n", k, m[k])
		}
	}
	pm("violation keys", keys)
	pm("counts", tot.Counts)
	pm("faults", tot.Faults)
	pm("probes", tot.Probes)
	return 0
}

func tail(xs []string, n int) []string {
	if len(xs) > n {
		return xs[len(xs)-n:]
	}
	return xs
}
