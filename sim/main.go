package main

import (
	"fmt"

	"cosmossdk.io/log"
	dbm "github.com/cosmos/cosmos-db"
	"github.com/cosmos/cosmos-sdk/baseapp"
	simtestutil "github.com/cosmos/cosmos-sdk/testutil/sims"

	"github.com/noble-assets/orbiter/v2/simapp"
)

func main() {
	app, err := simapp.NewSimApp(log.NewNopLogger(), dbm.NewMemDB(), nil, true, simtestutil.EmptyAppOptions{}, baseapp.SetChainID("noble-sim"))
	fmt.Println(app != nil, err)
}
