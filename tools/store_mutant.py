#!/usr/bin/env python3
# usage: store_mutant.py <agent out dir (patch.diff demo_test.go meta.json)> <label> <wave> "<confirm line>"
# Stores a confirmed seeded change under /verif/seeded/<label>/ in the common format.
import json, os, shutil, sys
src, label, wave, confirm = sys.argv[1], sys.argv[2], sys.argv[3], sys.argv[4]
m = json.load(open(os.path.join(src, "meta.json")))
d = os.path.join("/verif/seeded", label)
os.makedirs(d, exist_ok=True)
shutil.copy(os.path.join(src, "patch.diff"), os.path.join(d, "patch.diff"))
shutil.copy(os.path.join(src, "demo_test.go"), os.path.join(d, "demo_test.go"))
out = {
    "label": label,
    "property": m["property"],
    "origin": "written by an independent sub-agent that was given only the text of the property, a scratch worktree of the repaired repository and the list of ideas already used in earlier waves (wave %s)" % wave,
    "summary": m.get("summary", ""),
    "breaks": m.get("breaks", ""),
    "needs_to_manifest": m.get("needs_to_manifest", ""),
    "files_changed": m.get("files_changed", []),
    "demo_path": m["demo_path"],
    "demo_cmd": m["demo_cmd"],
    "confirmed_by_me": {
        "how": "tools/confirm_mutant.sh in a scratch worktree of /repo HEAD: git apply, go build ./... in root and simapp, go test -vet=off -count=1 ./... in the root module with the patch (all packages ok), demonstration run with the patch and again after reverting it",
        "result": confirm,
    },
}
json.dump(out, open(os.path.join(d, "meta.json"), "w"), indent=1)
print("stored", d)
