#!/bin/bash
# usage (from a snapshot of /verif, e.g. under `vp run`): tools/thorough_sweep.sh [props...]
# Builds the snapshot's simulator against /repo and runs the thorough tier of every check, writing
# replays and evidence inside the snapshot directory (never into /verif/evidence).
HERE="$(cd "$(dirname "$0")/.." && pwd)"
cd "$HERE"
export VERIF_REPO=/repo/. VERIF_SIM="$HERE/sim" VERIF_BIN="$HERE/orbsim-snap"
./bin/build.sh || { echo "BUILD FAILED"; exit 2; }
export VERIF_REPLAY_DIR="$HERE/replays-thorough" VERIF_EVIDENCE_DIR="$HERE/evidence-thorough"
PROPS="$@"; [ -z "$PROPS" ] && PROPS="C01 C02 C03 C04 C05 C06 C07 C08 C09 C10 C11 C12 C13 C14 C16 C17 C18 C19 C20"
for p in $PROPS; do
  S=$(date +%s)
  "$VERIF_BIN" check -prop $p -tier thorough 2>&1 | grep -E "^VIOLATION|^  rule=|^KNOWN|TROUBLE|: runs=" | cut -c1-300
  echo "== $p done in $(( $(date +%s) - S )) s"
done
