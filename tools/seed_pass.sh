#!/bin/bash
# usage: tools/seed_pass.sh [label ...]   (default: every directory under /verif/seeded)
# For each seeded change: apply it to /repo itself, run the check of the property it breaks (quick tier),
# undo it straight afterwards, and record the outcome in seeded/<label>/detection.json.
cd /verif
LABELS="$@"; [ -z "$LABELS" ] && LABELS=$(ls seeded | grep -v README)
for L in $LABELS; do
  D=/verif/seeded/$L
  [ -f "$D/patch.diff" ] || continue
  PROP=$(python3 -c "import json;print(json.load(open('$D/meta.json'))['property'])")
  if [ -n "$(git -C /repo status --porcelain)" ]; then echo "/repo is not clean, refusing"; exit 2; fi
  if ! git -C /repo apply "$D/patch.diff"; then echo "$L PATCH-DOES-NOT-APPLY"; continue; fi
  S=$(date +%s)
  OUT=$(VERIF_REPLAY_DIR=/tmp/seedpass/$L/replays VERIF_EVIDENCE_DIR=/tmp/seedpass/$L/evidence ./bin/check "$PROP" quick 2>&1); CODE=$?
  E=$(( $(date +%s) - S ))
  git -C /repo checkout -- . ; git -C /repo clean -fdq
  python3 - "$D" "$PROP" "$CODE" "$E" <<PY
import json,sys,re
d,prop,code,secs=sys.argv[1],sys.argv[2],int(sys.argv[3]),int(sys.argv[4])
out=open('/dev/stdin').read() if False else """$(echo "$OUT" | sed 's/\\/\\\\/g; s/"""/"/g' | tail -40)"""
viol=[l for l in out.splitlines() if l.startswith('VIOLATION')]
rules=[l.strip()[:300] for l in out.splitlines() if l.strip().startswith('rule=')]
summary=[l for l in out.splitlines() if ': runs=' in l]
json.dump({"check":f"./bin/check {prop} quick","applied_to":"/repo working tree (git apply), undone afterwards (git checkout)","exit_code":code,"caught":code==1 and len(viol)>0,"violation_lines":len(viol),"first_rules":rules[:3],"summary":summary[-1] if summary else "","seconds_including_build":secs},open(d+'/detection.json','w'),indent=1)
print(d.split('/')[-1], prop, "exit",code,"violations",len(viol),secs,"s")
PY
done
