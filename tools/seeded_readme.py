#!/usr/bin/env python3
# Writes /verif/seeded/README.md from seeded/*/meta.json and detection.json
import json,os,glob
rows=[]
for d in sorted(glob.glob('/verif/seeded/C*')):
    m=json.load(open(d+'/meta.json'))
    det=json.load(open(d+'/detection.json')) if os.path.exists(d+'/detection.json') else None
    rows.append((m['label'],m['property'],(m.get('summary') or '')[:170].replace('|','/').replace('\n',' '),(m.get('needs_to_manifest') or '')[:170].replace('|','/').replace('\n',' '),det))
out=["# Seeded changes","",
"Each directory holds `patch.diff` (applies to the current HEAD of /repo with `git apply`), `demo_test.go` (fails with the change, passes without), `meta.json` (what it breaks, what it needs in order to manifest, how it was confirmed) and `detection.json` (the outcome of the quick check of the property it breaks with the change applied: waves 1-3 through `tools/seed_pass.sh` — applied to /repo itself, undone straight afterwards — waves 4 to 7 through `bin/mutant-run` — applied in a scratch worktree of /repo's HEAD; the `check` field says which).",
"Labels `CxxA`/`CxxB` are wave 1 (written against the original tree, re-based where a later `fix:` commit touched the same lines), `CxxA2`/`CxxB2` are wave 2 (written against the repaired tree, with the wave-1 ideas excluded), `CxxA3`/`CxxB3`, `CxxA4`/`CxxB4`, `CxxA5`/`CxxB5`, `CxxA6` and `CxxA7` are waves 3 to 7 (same, with all earlier ideas for the property excluded and a stated preference for histories, faults, restarts and rolled-back or simulated transactions; wave 7 also names failures of the module's own state store and error classes). None of them is ever committed to /repo. Each `detection.json` records the outcome of the pass made when its wave was evaluated (the simulator was extended after every wave; `tools/seed_pass.sh <label>` re-evaluates a change against the current one).","",
"Dropped: wave-1 `C01B` (needs a fee paid to the orbiter account, refused at validation since the fix), `C19A`, `C19B` (made error *text* nondeterministic; since the C19 fix the text is no longer committed), `C20B` (non-canonical negative identifiers, refused since the C20 fix).","",
"| label | property | change | needs | caught by its property's quick check | violations | seconds (incl. build) |","|---|---|---|---|---|---|---|"]
n=c=0
for l,p,s,nd,det in rows:
    n+=1
    if det:
        c+=1 if det['caught'] else 0
        out.append(f"| {l} | {p} | {s} | {nd} | {'yes' if det['caught'] else 'NO (exit %s)'%det['exit_code']} | {det['violation_lines']} | {det['seconds_including_build'] if det['seconds_including_build'] is not None else '-'} |")
    else:
        out.append(f"| {l} | {p} | {s} | {nd} | (not yet run) | | |")
out+=["",f"{c} of {n} seeded changes are caught by the quick tier of the check of the property they were written against.",""]
open('/verif/seeded/README.md','w').write('\n'.join(out))
print(c,'of',n)
