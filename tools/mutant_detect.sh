#!/bin/bash
# usage: tools/mutant_detect.sh <label> [tier]
# Runs the check of the property a seeded change breaks through bin/mutant-run (scratch worktree of
# /repo HEAD, never /repo itself) and records the outcome in seeded/<label>/detection.json.
L="$1"; TIER="${2:-quick}"; D=/verif/seeded/$L
PROP=$(python3 -c "import json;print(json.load(open('$D/meta.json'))['property'])")
S=$(date +%s)
OUT=$(/verif/bin/mutant-run "$D/patch.diff" "$PROP" "$TIER" 2>&1)
E=$(( $(date +%s) - S ))
printf '%s\n' "$OUT" > "/tmp/md-$L.out"
python3 - "$D" "$PROP" "$TIER" "$E" "/tmp/md-$L.out" <<'PY'
import json,sys,re
d,prop,tier,secs,outf=sys.argv[1],sys.argv[2],sys.argv[3],int(sys.argv[4]),sys.argv[5]
out=open(outf).read()
viol=[l for l in out.splitlines() if l.startswith('VIOLATION')]
rules=[l.strip()[:300] for l in out.splitlines() if l.strip().startswith('rule=')]
summary=[l for l in out.splitlines() if ': runs=' in l]
m=re.search(r'exit=(\d+)',out); code=int(m.group(1)) if m else 2
json.dump({"check":f"./bin/check {prop} {tier} (through bin/mutant-run: the change applied in a scratch worktree of /repo HEAD, the simulator built against it, the worktree removed afterwards)","exit_code":code,"caught":code==1 and len(viol)>0,"violation_lines":len(viol),"first_rules":rules[:3],"summary":summary[-1] if summary else "","seconds_including_build":secs},open(d+'/detection.json','w'),indent=1)
print(d.split('/')[-1], prop, "exit",code,"violations",len(viol),secs,"s")
PY
rm -f "/tmp/md-$L.out"
