#!/bin/bash
# usage: confirm_mutant.sh <dir with patch.diff demo_test.go meta.json> <label>
# Confirms in a scratch worktree of /repo HEAD: patch applies, builds, existing suite passes with it,
# demo fails with it and passes without it. Prints one summary line. Removes the worktree.
D="$1"; L="$2"; W="/tmp/cm/$L"; LOG="/tmp/cm/$L.log"
mkdir -p /tmp/cm; rm -rf "$W"; git -C /repo worktree prune
git -C /repo worktree add --detach "$W" HEAD >/dev/null 2>&1 || { echo "$L worktree-failed"; exit 0; }
trap 'git -C /repo worktree remove --force "$W" >/dev/null 2>&1' EXIT
export GOPROXY=off GOFLAGS=
cd "$W"
if ! git apply "$D/patch.diff" >"$LOG" 2>&1; then
  if ! git apply --3way "$D/patch.diff" >>"$LOG" 2>&1; then echo "$L APPLY-FAILED"; exit 0; fi
fi
DP=$(python3 -c "import json;print(json.load(open('$D/meta.json'))['demo_path'])")
DC=$(python3 -c "import json;print(json.load(open('$D/meta.json'))['demo_cmd'])")
if ! (go build ./... && cd simapp && go build ./...) >>"$LOG" 2>&1; then echo "$L BUILD-FAILED"; exit 0; fi
if ! go test -vet=off -count=1 ./... >>"$LOG" 2>&1; then echo "$L SUITE-FAILS-WITH-PATCH"; exit 0; fi
mkdir -p "$(dirname "$DP")"; cp "$D/demo_test.go" "$DP"
DC2=$(echo "$DC" | sed -E "s#cd <repo[ -]root> && ##; s#cd /tmp/mut[0-9]*/[A-Z0-9]+ && ##; s#/tmp/mut[0-9]*/[A-Z0-9]+#$W#g")
if (cd "$W" && eval "$DC2") >>"$LOG" 2>&1; then WITH=pass; else WITH=fail; fi
git apply -R "$D/patch.diff" >>"$LOG" 2>&1 || git checkout -- $(git diff --name-only) >>"$LOG" 2>&1
if (cd "$W" && eval "$DC2") >>"$LOG" 2>&1; then WITHOUT=pass; else WITHOUT=fail; fi
echo "$L demo-with-patch=$WITH demo-without=$WITHOUT"
